---------------------------------- MODULE Imu ----------------------------------
(* State machine of pypose.module.IMUPreintegrator over a stream of F frames that is   *)
(* fed to ONE integrator object in consecutive chunks (calls of forward).               *)
(*                                                                                      *)
(* Everything is symbolic and exact.  Frame j contributes the rotation increment        *)
(* Exp(w_j dt_j) (symbol j; symbol 0 is the constructor's initial rotation), the        *)
(* acceleration a_j (symbol: frame index + the rotation word used to remove gravity),   *)
(* the transition matrix A_j and noise term Q_j of the covariance recursion.            *)
(*   rotation  = word (sequence of symbols, product read left to right)                 *)
(*   velocity  = formal sum (set) of terms  r . a_f dt_f          [r, f, g]             *)
(*   position  = formal sum of  p0,  1/2 r . a_f dt_f^2  ("h"),  r . a_f dt_f dt_t ("x")*)
(*   covariance= formal sum of  W Q_q W^T  with W a word of transition matrices         *)
(* so "the buffer equals the fold over the frames consumed so far" is an equality of    *)
(* finite objects that TLC decides, and every structural slip (operand order, missing   *)
(* v_i dt term, stale or unsaved buffer, wrong prefix index) changes the object.        *)
(*                                                                                      *)
(* One call = Begin (rank normalisation, Exp, prepend identity) ; rounds of the         *)
(* log-step scan of module Scan on len+1 rotation elements ; Integrate (cumulative sums,*)
(* gravity removal, predict = composition with the initial state) ; rounds of the scan  *)
(* on the len+1 transition matrices of the flipped list ; Finish (covariance sum,       *)
(* buffers := last state unless the object was built with reset=True).                  *)
EXTENDS Naturals, Integers, Sequences, FiniteSets, TLC

CONSTANTS MaxF,        \* longest stream
          MaxB,        \* largest batch (only the rank guard depends on it)
          RotLeft,     \* `left` flag of the rotation scan      (required: FALSE)
          CovLeft,     \* `left` flag of the covariance scan    (required: FALSE)
          InitOnLeft,  \* predict composes  R_i * DeltaR        (required: TRUE)
          GravPost,    \* integrated rotation used for gravity removal at frame j includes increment j
          KeepHist     \* keep the chunking in the state, so that TLC enumerates every composition

VARIABLES F, B, reset, known,   \* stream length, batch, constructor flag, known rotation supplied
          k,                     \* frames consumed so far
          buf,                   \* buffers [rot, vel, pos, cov, Rij]
          out,                   \* result of the call in progress / last call
          pc, call, hist,
          L, v, s, rounds        \* the running scan (variables of module Scan)

vars == <<F, B, reset, known, k, buf, out, pc, call, hist, L, v, s, rounds>>

SC == INSTANCE Scan WITH MaxL <- MaxF + 1

Min2(a, b) == IF a < b THEN a ELSE b
Max2(a, b) == IF a > b THEN a ELSE b
Asc(lo, hi)  == [i \in 1..Max2(hi - lo + 1, 0) |-> lo + i - 1]
Desc(lo, hi) == [i \in 1..Max2(hi - lo + 1, 0) |-> hi - i + 1]
Poison == <<-1>>

\* ------------------------------------------------------------- bookkeeping shared with ImuTrace / ImuGen
Ranks == {1, 2, 3}                                   \* (H), (F,H), (B,F,H)
RankOK(rank, b, len) == (rank = 1 => (len = 1 /\ b = 1)) /\ (rank = 2 => b = 1)
ScanLen(len) == len + 1                              \* identity is prepended: every len needs a scan of len+1
Origin(rs, k0) == IF rs THEN k0 ELSE 0               \* frames Origin+1 .. k0+i are folded into output i
TolUlps(nfold) == 64 * nfold                         \* the property's "small multiple of eps", per folded frame
OutShape(b, len, h) == <<b, len, h>>

\* ------------------------------------------------------------- the documented recursion (fold)
V0 == [r |-> <<>>, f |-> 0, g |-> <<>>]
P0 == [kind |-> "p0", r |-> <<>>, f |-> 0, g |-> <<>>, t |-> 0]
S0 == [rot |-> <<0>>, vel |-> {V0}, pos |-> {P0}]
C0 == {[w |-> <<>>, q |-> 0, r |-> <<>>]}
Buf0 == [rot |-> S0.rot, vel |-> S0.vel, pos |-> S0.pos, cov |-> C0, Rij |-> <<>>]

GWord(kn, R, j) == IF kn THEN <<-j>> ELSE IF GravPost THEN R \o <<j>> ELSE R
\*   R <- R Exp(w dt),  v <- v + R a dt,  p <- p + v dt + 1/2 R a dt^2     (old R, old v on the right)
WStep(kn, S, j) ==
  LET g == GWord(kn, S.rot, j) IN
  [rot |-> S.rot \o <<j>>,
   vel |-> S.vel \cup {[r |-> S.rot, f |-> j, g |-> g]},
   pos |-> S.pos \cup {[kind |-> "x", r |-> t.r, f |-> t.f, g |-> t.g, t |-> j] : t \in S.vel}
                 \cup {[kind |-> "h", r |-> S.rot, f |-> j, g |-> g, t |-> 0]}]
RECURSIVE Fold(_, _, _)
Fold(kn, o, j) == IF j <= o THEN S0 ELSE WStep(kn, Fold(kn, o, j - 1), j)
\*   C <- A_j C A_j^T + Q_j
CovFold(o, j) == {[w |-> Desc(o + 1, j), q |-> 0, r |-> <<>>]} \cup
                 {[w |-> Desc(i + 1, j), q |-> i, r |-> Asc(o + 1, i)] : i \in (o + 1)..j}

\* ------------------------------------------------------------- one call, as the code is structured
n == call.len
\* scan position p of the rotation list holds identity (p = 1) or frame k+p-1
RotWord(iv) == IF iv = SC!Bad THEN Poison
               ELSE LET lo == k + Max2(iv[1], 2) - 1  hi == k + iv[2] - 1 IN
                    IF RotLeft THEN Desc(lo, hi) ELSE Asc(lo, hi)
\* A-list m = 1..L : frame k+m, last one identity; the scan runs on the flipped list (position p <-> m = L+1-p)
CovWord(iv) == IF iv = SC!Bad THEN Poison
               ELSE LET lo == k + L + 1 - iv[2]  hi == k + Min2(L + 1 - iv[1], L - 1) IN
                    IF CovLeft THEN Asc(lo, hi) ELSE Desc(lo, hi)

Compose(a, b) == IF InitOnLeft THEN a \o b ELSE b \o a
Act(R, t)     == [t EXCEPT !.r = R \o @]

Incr(i)   == RotWord(v[i + 1])                                   \* local DeltaR after i frames of the chunk
GW(i)     == IF known THEN <<-(k + i)>>
             ELSE Compose(buf.rot, Incr(IF GravPost THEN i ELSE i - 1))
DvTerm(i) == [r |-> Incr(i - 1), f |-> k + i, g |-> GW(i)]
Dv(i)     == {DvTerm(m) : m \in 1..i}                            \* cumsum
DpInc(m)  == {[kind |-> "x", r |-> t.r, f |-> t.f, g |-> t.g, t |-> k + m] : t \in Dv(m - 1)}
             \cup {[kind |-> "h", r |-> Incr(m - 1), f |-> k + m, g |-> GW(m), t |-> 0]}
Dp(i)     == UNION {DpInc(m) : m \in 1..i}                       \* cumsum
Dt(i)     == (k + 1)..(k + i)                                    \* cumsum of dt

Predict(i) ==
  [rot |-> Compose(buf.rot, Incr(i)),
   vel |-> buf.vel \cup {Act(buf.rot, t) : t \in Dv(i)},
   pos |-> buf.pos \cup {Act(buf.rot, t) : t \in Dp(i)}
                   \cup {[kind |-> "x", r |-> t.r, f |-> t.f, g |-> t.g, t |-> j] : t \in buf.vel, j \in Dt(i)}]

FreshScan(len) == /\ L' = ScanLen(len)
                  /\ v' = [i \in 1..ScanLen(len) |-> <<i, i>>]
                  /\ s' = 1 /\ rounds' = 0
IdleScan == L' = 1 /\ v' = <<<<1, 1>>>> /\ s' = 1 /\ rounds' = 0

Init ==
  /\ F \in 1..MaxF /\ B \in 1..MaxB /\ reset \in BOOLEAN /\ known \in BOOLEAN
  /\ k = 0 /\ buf = Buf0 /\ out = <<>> /\ pc = "idle"
  /\ call = [len |-> 0, rank |-> 3] /\ hist = <<>>
  /\ L = 1 /\ v = <<<<1, 1>>>> /\ s = 1 /\ rounds = 0

Begin(len, rank) ==
  /\ pc = "idle" /\ k + len <= F /\ RankOK(rank, B, len)
  /\ call' = [len |-> len, rank |-> rank]
  /\ pc' = "rotscan" /\ FreshScan(len)
  /\ out' = <<>>
  /\ UNCHANGED <<F, B, reset, known, k, buf, hist>>

RotRound == pc = "rotscan" /\ SC!Round /\ UNCHANGED <<F, B, reset, known, k, buf, out, pc, call, hist>>

Integrate ==
  /\ pc = "rotscan" /\ SC!Done
  /\ out' = [st  |-> [i \in 1..n |-> Predict(i)],
             rij |-> [i \in 1..n |-> buf.Rij \o Incr(i)],
             cov |-> {}]
  /\ pc' = "covscan" /\ FreshScan(n)
  /\ UNCHANGED <<F, B, reset, known, k, buf, call, hist>>

CovRound == pc = "covscan" /\ SC!Round /\ UNCHANGED <<F, B, reset, known, k, buf, out, pc, call, hist>>

Finish ==
  /\ pc = "covscan" /\ SC!Done
  /\ LET Acum(m) == CovWord(v[L + 1 - m])
         cov == {[w |-> Acum(1) \o t.w, q |-> t.q, r |-> t.r] : t \in buf.cov} \cup
                {[w |-> Acum(m), q |-> k + m - 1, r |-> out.rij[m - 1]] : m \in 2..L}
         last == out.st[n] IN
       /\ out' = [out EXCEPT !.cov = cov]
       /\ buf' = IF reset THEN buf
                 ELSE [rot |-> last.rot, vel |-> last.vel, pos |-> last.pos, cov |-> cov, Rij |-> out.rij[n]]
  /\ k' = k + n
  /\ hist' = IF KeepHist THEN Append(hist, n) ELSE hist
  /\ pc' = "idle" /\ IdleScan
  /\ UNCHANGED <<F, B, reset, known, call>>

Next == (\E len \in 1..MaxF, rank \in Ranks : Begin(len, rank)) \/ RotRound \/ Integrate \/ CovRound \/ Finish
Spec == Init /\ [][Next]_vars

\* ------------------------------------------------------------- properties
Scanning == pc \in {"rotscan", "covscan"}
Sum(sq) == LET RECURSIVE S(_)  S(i) == IF i = 0 THEN 0 ELSE sq[i] + S(i - 1) IN S(Len(sq))

\* reset=False: after ANY chunking the buffers are the fold of frames 1..k; reset=True: still the initial state
BufferIsFold ==
  pc = "idle" =>
    IF reset THEN buf = Buf0
    ELSE LET S == Fold(known, 0, k) IN
         /\ buf.rot = S.rot /\ buf.vel = S.vel /\ buf.pos = S.pos
         /\ buf.Rij = Asc(1, k)
BufferCovIsFold == (pc = "idle" /\ ~reset) => buf.cov = CovFold(0, k)
\* every row of every call's result is the documented recursion from the initial state
OutputIsFold ==
  (pc = "idle" /\ out # <<>>) =>
    LET o == Origin(reset, k - n) IN
    /\ Len(out.st) = n
    /\ \A i \in 1..n : out.st[i] = Fold(known, o, k - n + i)
OutputCovIsFold == (pc = "idle" /\ out # <<>>) => out.cov = CovFold(Origin(reset, k - n), k)
\* the scan inside a call runs on len+1 elements and behaves as module Scan proves
ScanLength == Scanning => (L = ScanLen(n) /\ Len(v) = L)
ScanSound  == Scanning => (SC!ClosedForm /\ SC!NeverBad /\ (SC!Done => rounds = SC!CeilLog2(L)))
HistIsChunking == (KeepHist /\ pc = "idle") => Sum(hist) = k
TypeOK == /\ k \in 0..F /\ pc \in {"idle", "rotscan", "covscan"}
          /\ RankOK(call.rank, B, IF call.len = 0 THEN 1 ELSE call.len)

\* witnesses for vacuity (configs Imu_wit_*): TLC must report these "violated"
NoFullStreamInChunks == ~(pc = "idle" /\ ~reset /\ k = F /\ F = MaxF /\ Len(hist) >= 3)
NoOddScan            == ~(Scanning /\ L = 7)
================================================================================
