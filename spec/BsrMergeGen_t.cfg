\* thorough: as quick plus 2x3.3x2, 3x2.2x3 and 1x4.4x1 block grids
SPECIFICATION Spec
CONSTANTS
  GShapes = {222, 131, 212, 123, 321, 232, 323, 141}
