------------------------------- MODULE Kalman -------------------------------
(* C13 -- Kalman filter, EKF-as-documented, UKF-as-documented and the PF resampling    *)
(* index law over exact rationals <<num, den>> (den > 0, lowest terms), dimensions      *)
(* n, m, p <= 2.                                                                        *)
(*                                                                                      *)
(*   system     x' = f(x,u) = A x + B u + c1 + fa o x o x                               *)
(*              y  = g(x,u) = C x + D u + c2 + ga * x[1]*x[n]     (observed AFTER x')   *)
(*   linear-Gaussian case: fa = 0, ga = 0; noise covariances Q, R.                      *)
(*                                                                                      *)
(*   KF   (pypose/module/ekf.py docstring eq. 1-5 on a linear system, written here as   *)
(*         Gaussian conditioning of the joint (x', y) so that it shares no formula with *)
(*         the two filters below)                                                       *)
(*   EKF  (ekf.py, EKF.forward): A, C = Jacobians at the PRIOR mean x; x- = f(x,u);     *)
(*         P- = A P A' + Q; K = P- C'(C P- C' + R)^-1; x+ = x- + K (y - g(x-,u));       *)
(*         P+ = (I - K C) P-                                                            *)
(*   UKF  (ukf.py, UKF.forward / sigma_weight_points / compute_cov): sigma points       *)
(*         x, x + col_i(L), x - col_i(L) with L L' = (n+k) P; weights k/(n+k),          *)
(*         1/(2(n+k)); the sigma set is re-drawn from (x-, P-) before the observation,  *)
(*         and the cross covariance pairs state and observation deviations of that same *)
(*         re-drawn set.  No square root is taken: both factors are DATA (L1, L2) and   *)
(*         the spec checks L1 L1' = (n+k) P and L2 L2' = (n+k) P-.                      *)
(*   PF   resampling index law idx(r) = min {i : cumsum_i >= r}  (pf.py:                *)
(*         resample_particles = searchsorted(cumsum(q), r)); and the posterior mean of  *)
(*         the documented particle model on a linear system (prior N(x, nP) pushed      *)
(*         through f without process noise, Gaussian likelihood of y at the propagated  *)
(*         particle).                                                                   *)
(*                                                                                      *)
(* The state machine enumerates integer instances (all inputs are integers, hence       *)
(* exact in IEEE arithmetic as well): P = nk Lp Lp', L1 = nk Lp, P- = nk L2p L2p',      *)
(* L2 = nk L2p, Q = nk (L2p L2p' - J Lp Lp' J') where J is the Jacobian of f at x and   *)
(* nk = n + k.  Actions Predict / Update mirror the documented equations 1-2 / 3-5.     *)
EXTENDS Integers, Sequences, FiniteSets, TLC

CONSTANTS
  Variant,   \* "doc" = as documented; "rows", "mixed", "ekf_pre" = seeded design mutants
  Dims,      \* dimension pairs explored, coded 10*n + p
  NKs,       \* values of n + k explored (k = nk - n > -n)
  NA,        \* entries of A in -NA..NA                  (covariance family)
  DL, NL,    \* Lp:  diagonal entries in the set DL, off-diagonal in -NL..NL
  DL2, NL2,  \* L2p: diagonal entries in the set DL2, off-diagonal in -NL2..NL2
  NC,        \* entries of C in -NC..NC (no zero row)
  NRs,       \* indices of observation-noise covariances explored
  MeanFam,   \* TRUE: also explore the mean family (many x, u, y, offsets; few covariances)
  NonLin,    \* TRUE: also explore polynomial nonlinear systems (EKF clauses)
  MaxSteps,  \* length of re-seeded runs (mean family)
  NKm,       \* values of n + k for the mean and nonlinear families
  ThinM,     \* the same thinning for the coarse choices of the mean family
  Thin2,     \* keep the factor pairs (Lp, L2p) whose checksum is 0 mod Thin2 (1 = all)
  Thin       \* explore the coarse choices (A, n+k) of the covariance / nonlinear family whose checksum is 0 mod Thin

\* ============================================================= exact rationals
Abs(a) == IF a < 0 THEN -a ELSE a
RECURSIVE Gcd(_, _)
Gcd(a, b) == IF b = 0 THEN a ELSE Gcd(b, a % b)            \* a, b >= 0

QN(n, d) == LET g == Gcd(Abs(n), Abs(d)) IN
            IF d < 0 THEN <<(-n) \div g, (-d) \div g>> ELSE <<n \div g, d \div g>>
QI(i) == <<i, 1>>
Q0 == <<0, 1>>
Q1 == <<1, 1>>
QNeg(a) == <<-a[1], a[2]>>
QAdd(a, b) ==
  IF a[2] = b[2] THEN QN(a[1] + b[1], a[2])
  ELSE LET g == Gcd(a[2], b[2]) IN
       QN(a[1] * (b[2] \div g) + b[1] * (a[2] \div g), (a[2] \div g) * b[2])
QSub(a, b) == QAdd(a, QNeg(b))
QMul(a, b) ==
  IF a[1] = 0 \/ b[1] = 0 THEN Q0
  ELSE LET g1 == Gcd(Abs(a[1]), b[2])
           g2 == Gcd(Abs(b[1]), a[2]) IN
       <<(a[1] \div g1) * (b[1] \div g2), (a[2] \div g2) * (b[2] \div g1)>>
QInv(a) == IF a[1] > 0 THEN <<a[2], a[1]>> ELSE <<-a[2], -a[1]>>   \* a # 0
QDiv(a, b) == QMul(a, QInv(b))
\* comparisons never multiply (TLC integers are 32-bit): p/q <= r/s by continued fractions
RECURSIVE FracLe(_, _, _, _)
FracLe(p, q, r, s) ==                                   \* p, r >= 0; q, s > 0
  LET i1 == p \div q  i2 == r \div s  f1 == p % q  f2 == r % s IN
  IF i1 # i2 THEN i1 < i2
  ELSE IF f1 = 0 THEN TRUE
  ELSE IF f2 = 0 THEN FALSE
  ELSE FracLe(s, f2, q, f1)
QLe(a, b) ==
  IF a[1] >= 0 THEN (b[1] >= 0 /\ FracLe(a[1], a[2], b[1], b[2]))
  ELSE (b[1] >= 0 \/ FracLe(-b[1], b[2], -a[1], a[2]))
QNonNeg(a) == a[1] >= 0
QPos(a) == a[1] > 0
IsQ(a) == a[2] > 0 /\ Gcd(Abs(a[1]), a[2]) = 1

\* ============================================================= vectors / matrices (sequences of rows)
\* TLC evaluates [i \in S |-> e] lazily and re-evaluates e at every application; chained matrix
\* products would be recomputed exponentially often.  Mk builds a strict tuple instead.
Mk(n, Op(_)) ==
  CASE n = 1 -> <<Op(1)>>
    [] n = 2 -> <<Op(1), Op(2)>>
    [] n = 3 -> <<Op(1), Op(2), Op(3)>>
    [] n = 5 -> <<Op(1), Op(2), Op(3), Op(4), Op(5)>>
RECURSIVE QSumTo(_, _)
QSumTo(s, k) == IF k = 0 THEN Q0 ELSE QAdd(QSumTo(s, k - 1), s[k])
QSum(s) == QSumTo(s, Len(s))

VAdd(u, v) == Mk(Len(u), LAMBDA i : QAdd(u[i], v[i]))
VSub(u, v) == Mk(Len(u), LAMBDA i : QSub(u[i], v[i]))
VScale(c, v) == Mk(Len(v), LAMBDA i : QMul(c, v[i]))
Dot(u, v) == IF Len(u) = 1 THEN QMul(u[1], v[1]) ELSE QAdd(QMul(u[1], v[1]), QMul(u[2], v[2]))
MV(M, v) == Mk(Len(M), LAMBDA i : Dot(M[i], v))
Tr(M) == Mk(Len(M[1]), LAMBDA j : Mk(Len(M), LAMBDA i : M[i][j]))
MM(X, Y) == LET Yt == Tr(Y) IN Mk(Len(X), LAMBDA i : Mk(Len(Yt), LAMBDA j : Dot(X[i], Yt[j])))
MAdd(X, Y) == Mk(Len(X), LAMBDA i : VAdd(X[i], Y[i]))
MSub(X, Y) == Mk(Len(X), LAMBDA i : VSub(X[i], Y[i]))
MScale(c, X) == Mk(Len(X), LAMBDA i : VScale(c, X[i]))
Outer(u, v) == Mk(Len(u), LAMBDA i : Mk(Len(v), LAMBDA j : QMul(u[i], v[j])))
Id(n) == Mk(n, LAMBDA i : Mk(n, LAMBDA j : IF i = j THEN Q1 ELSE Q0))
ZeroM(r, c) == Mk(r, LAMBDA i : Mk(c, LAMBDA j : Q0))
ZeroV(r) == Mk(r, LAMBDA i : Q0)
Col(M, j) == Mk(Len(M), LAMBDA i : M[i][j])
Det(M) == IF Len(M) = 1 THEN M[1][1]
          ELSE QSub(QMul(M[1][1], M[2][2]), QMul(M[1][2], M[2][1]))
Inv(M) ==                                   \* 1x1 / 2x2, Det # 0
  IF Len(M) = 1 THEN << <<QInv(M[1][1])>> >>
  ELSE LET d == QInv(Det(M)) IN
       << <<QMul(M[2][2], d), QMul(QNeg(M[1][2]), d)>>,
          <<QMul(QNeg(M[2][1]), d), QMul(M[1][1], d)>> >>
\* weighted sums over a sigma set (w: sequence of rationals)
RECURSIVE WSumV(_, _, _)
WSumV(w, vs, k) == IF k = 1 THEN VScale(w[1], vs[1]) ELSE VAdd(WSumV(w, vs, k - 1), VScale(w[k], vs[k]))
RECURSIVE WSumOuter(_, _, _, _)
WSumOuter(w, a, b, k) ==
  IF k = 1 THEN MScale(w[1], Outer(a[1], b[1]))
  ELSE MAdd(WSumOuter(w, a, b, k - 1), MScale(w[k], Outer(a[k], b[k])))

\* ============================================================= predicates on covariances
Sym(M) == \A i \in DOMAIN M : \A j \in DOMAIN M : M[i][j] = M[j][i]
Lcm(a, b) == (a \div Gcd(a, b)) * b
\* integer numerators of a symmetric 2x2 over the common denominator (a positive rescaling)
Num2(M) == LET L == Lcm(M[1][1][2], Lcm(M[1][2][2], M[2][2][2]))
               N(q) == q[1] * (L \div q[2]) IN
           [a |-> N(M[1][1]), b |-> Abs(N(M[1][2])), c |-> N(M[2][2])]
\* all principal minors >= 0 (n <= 2);  b^2 <= a c  is decided as  b/c <= a/b
PSD(M) == /\ Sym(M)
          /\ IF Len(M) = 1 THEN QNonNeg(M[1][1])
             ELSE LET k == Num2(M) IN
                  /\ k.a >= 0 /\ k.c >= 0
                  /\ k.b = 0 \/ (k.a > 0 /\ k.c > 0 /\ FracLe(k.b, k.c, k.a, k.b))
\* leading minors > 0
PD(M)  == /\ Sym(M)
          /\ IF Len(M) = 1 THEN QPos(M[1][1])
             ELSE LET k == Num2(M) IN
                  /\ k.a > 0 /\ k.c > 0
                  /\ k.b = 0 \/ ~FracLe(k.a, k.b, k.b, k.c)
LoewnerLe(X, Y) == PSD(MSub(Y, X))                    \* X <= Y

\* ============================================================= the system
Dn(s) == Len(s.A)
Dp(s) == Len(s.C)
F(s, x, u) == Mk(Dn(s), LAMBDA i :
                 QAdd(QAdd(QAdd(Dot(s.A[i], x), Dot(s.B[i], u)), s.c1[i]),
                      QMul(s.fa[i], QMul(x[i], x[i]))))
G(s, x, u) == Mk(Dp(s), LAMBDA j :
                 QAdd(QAdd(QAdd(Dot(s.C[j], x), Dot(s.D[j], u)), s.c2[j]),
                      QMul(s.ga[j], QMul(x[1], x[Dn(s)]))))
JF(s, x) == Mk(Dn(s), LAMBDA i : Mk(Dn(s), LAMBDA j :
               IF i = j THEN QAdd(s.A[i][j], QMul(QI(2), QMul(s.fa[i], x[i]))) ELSE s.A[i][j]))
JG(s, x) == Mk(Dp(s), LAMBDA j : Mk(Dn(s), LAMBDA c :
               QAdd(s.C[j][c], QMul(s.ga[j],
                    QAdd(IF c = 1 THEN x[Dn(s)] ELSE Q0, IF c = Dn(s) THEN x[1] ELSE Q0)))))
IsLinear(s) == (\A i \in 1..Dn(s) : s.fa[i] = Q0) /\ (\A j \in 1..Dp(s) : s.ga[j] = Q0)
\* the linear system NLS documents as the linearisation at (x, u):  c1 = f - A x - B u, c2 = g - C x - D u
Linearise(s, x, u) ==
  LET A == JF(s, x)  C == JG(s, x) IN
  [s EXCEPT !.A = A, !.C = C,
            !.c1 = VSub(VSub(F(s, x, u), MV(A, x)), MV(s.B, u)),
            !.c2 = VSub(VSub(G(s, x, u), MV(C, x)), MV(s.D, u)),
            !.fa = ZeroV(Dn(s)), !.ga = ZeroV(Dp(s))]

\* ============================================================= Kalman filter (linear system)
KFPredict(s, x, P, u) ==
  [x |-> VAdd(VAdd(MV(s.A, x), MV(s.B, u)), s.c1),
   P |-> MAdd(MM(MM(s.A, P), Tr(s.A)), s.Q)]
\* exact posterior of x' given y: joint Gaussian (x', y), y = C x' + D u + c2 + v
KFUpdate(s, xm, Pm, u, y) ==
  LET ybar == VAdd(VAdd(MV(s.C, xm), MV(s.D, u)), s.c2)
      Pxy  == MM(Pm, Tr(s.C))
      Py   == MAdd(MM(s.C, Pxy), s.R)
      K    == MM(Pxy, Inv(Py)) IN
  [x |-> VAdd(xm, MV(K, VSub(y, ybar))),
   P |-> MSub(Pm, MM(K, Tr(Pxy))),
   K |-> K]
KFStep(s, x, P, u, y) == LET pr == KFPredict(s, x, P, u) IN KFUpdate(s, pr.x, pr.P, u, y)

\* ============================================================= EKF as documented (ekf.py)
EKFStep(s, x, P, u, y) ==
  LET A  == JF(s, x)                                  \* set_refpoint(state=x, input=u): Jacobians at the prior mean
      C  == JG(s, x)
      xm == F(s, x, u)                                \* 1. x- = f(x, u)
      Pm == MAdd(MM(MM(A, P), Tr(A)), s.Q)            \* 2. P- = A P A' + Q
      K  == MM(MM(Pm, Tr(C)), Inv(MAdd(MM(MM(C, Pm), Tr(C)), s.R)))   \* 3.
      e  == VSub(y, G(s, IF Variant = "ekf_pre" THEN x ELSE xm, u))   \* innovation at the PREDICTED state
      xp == VAdd(xm, MV(K, e))                        \* 4.
      Pp == MM(MSub(Id(Dn(s)), MM(K, C)), Pm) IN      \* 5. (I - K C) P-
  [x |-> xp, P |-> Pp, xm |-> xm, Pm |-> Pm, K |-> K]

\* ============================================================= UKF as documented (ukf.py)
SigmaDev(L, i) == IF Variant = "rows" THEN L[i] ELSE Col(L, i)
Sigma(x, L) ==                                        \* x, x + col_i, x - col_i
  LET n == Len(x) IN
  Mk(2 * n + 1, LAMBDA i :
     IF i = 1 THEN x
     ELSE IF i <= n + 1 THEN VAdd(x, SigmaDev(L, i - 1))
     ELSE VSub(x, SigmaDev(L, i - 1 - n)))
Weights(n, nk) ==                                     \* k/(n+k), 1/(2(n+k)),  nk = n + k > 0
  Mk(2 * n + 1, LAMBDA i : IF i = 1 THEN QN(nk - n, nk) ELSE QN(1, 2 * nk))
UKFStep(s, x, P, u, y, nk, L1, L2) ==
  LET n   == Dn(s)
      N   == 2 * n + 1
      w   == Weights(n, nk)
      xs1 == Sigma(x, L1)
      fx  == Mk(N, LAMBDA i : F(s, xs1[i], u))
      xe  == WSumV(w, fx, N)                          \* 2. prior mean
      ex1 == Mk(N, LAMBDA i : VSub(xe, fx[i]))
      Pm  == MAdd(WSumOuter(w, ex1, ex1, N), s.Q)     \* 3. prior covariance
      xs2 == Sigma(xe, L2)                            \* sigma points re-drawn from (x-, P-)
      ys  == Mk(N, LAMBDA i : G(s, xs2[i], u))
      ye  == WSumV(w, ys, N)                          \* 4.
      ey  == Mk(N, LAMBDA i : VSub(ye, ys[i]))
      Py  == MAdd(WSumOuter(w, ey, ey, N), s.R)       \* 5.
      ex2 == Mk(N, LAMBDA i : VSub(xe, xs2[i]))
      Pxy == WSumOuter(w, IF Variant = "mixed" THEN ex1 ELSE ex2, ey, N)   \* 6. same sigma set
      K   == MM(Pxy, Inv(Py))                         \* 7.
      xp  == VAdd(xe, MV(K, VSub(y, ye)))             \* 8.
      Pp  == MSub(Pm, MM(K, MM(Py, Tr(K)))) IN        \* 9. P- - K Py K'
  [x |-> xp, P |-> Pp, xm |-> xe, Pm |-> Pm,
   factors |-> (MM(L1, Tr(L1)) = MScale(QI(nk), P)) /\ (MM(L2, Tr(L2)) = MScale(QI(nk), Pm))]

\* ============================================================= PF
\* documented particle model on a linear system: x_k ~ N(x, n P), x-_k = f(x_k, u) (no process
\* noise), weight = N(y; g(x-_k, u), R).  Its posterior mean is a Kalman update with prior
\* covariance n A P A' and no Q.
PFModel(s, x, P, u, y) ==
  LET m  == VAdd(VAdd(MV(s.A, x), MV(s.B, u)), s.c1)
      S0 == MScale(QI(Dn(s)), MM(MM(s.A, P), Tr(s.A))) IN
  KFUpdate(s, m, S0, u, y)
\* resampling index law over integer weights c (q_i = c[i]/Tot): idx(r) = min {i : cum_i >= r}
RECURSIVE CumTo(_, _)
CumTo(c, i) == IF i = 0 THEN 0 ELSE CumTo(c, i - 1) + c[i]
\* r = rn/rd with 0 < r < 1; cum_i = CumTo(c,i)/tot
Idx(c, tot, rn, rd) ==
  LET S == {i \in DOMAIN c : CumTo(c, i) * rd >= rn * tot} IN
  CHOOSE i \in S : \A j \in S : i <= j
\* the law the documentation states: cum_{j-1} <= r < cum_j
IdxDoc(c, tot, rn, rd) ==
  CHOOSE j \in DOMAIN c : CumTo(c, j - 1) * rd <= rn * tot /\ rn * tot < CumTo(c, j) * rd

\* ============================================================= integer instances
IDot(u, v) == LET RECURSIVE S(_)
                  S(k) == IF k = 0 THEN 0 ELSE S(k - 1) + u[k] * v[k] IN S(Len(u))
ITr(M) == Mk(Len(M[1]), LAMBDA j : Mk(Len(M), LAMBDA i : M[i][j]))
IMM(X, Y) == LET Yt == ITr(Y) IN Mk(Len(X), LAMBDA i : Mk(Len(Yt), LAMBDA j : IDot(X[i], Yt[j])))
IMSub(X, Y) == Mk(Len(X), LAMBDA i : Mk(Len(X[i]), LAMBDA j : X[i][j] - Y[i][j]))
IMScale(c, X) == Mk(Len(X), LAMBDA i : Mk(Len(X[i]), LAMBDA j : c * X[i][j]))
IDet(M) == IF Len(M) = 1 THEN M[1][1] ELSE M[1][1] * M[2][2] - M[1][2] * M[2][1]
IPD(M) == M[1][1] > 0 /\ IDet(M) > 0 /\ \A i \in DOMAIN M : \A j \in DOMAIN M : M[i][j] = M[j][i]
QM(M) == Mk(Len(M), LAMBDA i : Mk(Len(M[i]), LAMBDA j : QI(M[i][j])))
QV(v) == Mk(Len(v), LAMBDA i : QI(v[i]))

\* Jacobian of f at the integer prior mean
IJac(I) == Mk(I.n, LAMBDA i : Mk(I.n, LAMBDA j :
              IF i = j THEN I.A[i][j] + 2 * I.fa[i] * I.x[i] ELSE I.A[i][j]))
LLt(L) == IMM(L, ITr(L))
IQp(I) == IMSub(LLt(I.L2p), IMM(IMM(IJac(I), LLt(I.Lp)), ITr(IJac(I))))      \* Q / nk
IP(I)  == IMScale(I.nk, LLt(I.Lp))                    \* prior covariance
IQ(I)  == IMScale(I.nk, IQp(I))                       \* process noise covariance
IL1(I) == IMScale(I.nk, I.Lp)                         \* L1 L1' = nk P
IL2(I) == IMScale(I.nk, I.L2p)                        \* L2 L2' = nk P-
SysOf(I) ==
  [A |-> QM(I.A), B |-> QM(I.B), C |-> QM(I.C), D |-> QM(I.D), c1 |-> QV(I.c1), c2 |-> QV(I.c2),
   fa |-> QV(I.fa), ga |-> QV(I.ga), Q |-> QM(IQ(I)), R |-> QM(I.R)]
\* Jacobian of g at the integer prior mean, and the integer innovation covariance built from it
IJacG(I) == Mk(I.p, LAMBDA j : Mk(I.n, LAMBDA c :
              I.C[j][c] + I.ga[j] * ((IF c = 1 THEN I.x[I.n] ELSE 0) + (IF c = I.n THEN I.x[1] ELSE 0))))
IS(I) == LET Pm == IMScale(I.nk, LLt(I.L2p))
             S0 == IMM(IMM(IJacG(I), Pm), ITr(IJacG(I))) IN
         Mk(I.p, LAMBDA i : Mk(I.p, LAMBDA j : S0[i][j] + I.R[i][j]))
\* TLC integers are 32-bit: every rational met while filtering has a denominator dividing
\* 2 nk det S and a numerator of about (value * denominator); instances beyond these bounds are skipped
DetMax == 20000
PMax == 200
Small(I) == IDet(IS(I)) <= DetMax /\ \A i \in 1..I.n : I.nk * LLt(I.L2p)[i][i] <= PMax
ValidInst(I) == IPD(IQp(I)) /\ IPD(I.R) /\ I.nk > 0 /\ Small(I)

\* ---- enumeration lattices
DimN(d) == d \div 10
DimP(d) == d % 10
LowTri(n, DS, OS) ==
  IF n = 1 THEN {<< <<d>> >> : d \in DS}
  ELSE {<< <<a, 0>>, <<b, d>> >> : a \in DS, b \in OS, d \in DS}
Mats(r, c, S) == [1..r -> [1..c -> S]]
Vecs(r, S) == [1..r -> S]
NoZeroRow(M) == \A i \in DOMAIN M : \E j \in DOMAIN M[i] : M[i][j] # 0
RMat(p, k) ==                                         \* observation-noise covariances (SPD)
  IF p = 1 THEN << <<k>> >>
  ELSE CASE k = 1 -> << <<1, 0>>, <<0, 1>> >>
         [] k = 2 -> << <<2, 1>>, <<1, 1>> >>
         [] k = 3 -> << <<2, -1>>, <<-1, 3>> >>
         [] OTHER -> << <<k, 1>>, <<1, k>> >>
\* generic mean data for dimension r, profile k
GenVec(r, k) == Mk(r, LAMBDA i : CASE k = 0 -> 0 [] k = 1 -> 2 * i - 1 [] k = 2 -> i - 3 [] OTHER -> 2 - i * k)
GenMat(r, c, k) == Mk(r, LAMBDA i : Mk(c, LAMBDA j : CASE k = 0 -> 0 [] k = 1 -> i - j + 1 [] OTHER -> ((i * j) % 3) - 1))

Base(n, p, nk, Lp, A, L2p, C, R) ==
  [n |-> n, m |-> 1, p |-> p, nk |-> nk, Lp |-> Lp, A |-> A, L2p |-> L2p, C |-> C, R |-> R,
   B |-> GenMat(n, 1, 1), D |-> GenMat(p, 1, 2), c1 |-> GenVec(n, 2), c2 |-> GenVec(p, 1),
   fa |-> GenVec(n, 0), ga |-> GenVec(p, 0), x |-> GenVec(n, 1), u |-> <<1>>, ys |-> {GenVec(p, 3)},
   step |-> 1, fam |-> "cov"]

\* observation matrices: p = 1 every non-zero row of the lattice; p = 2 a list covering identity,
\* triangular, permutation, mixing and rank-deficient matrices
CSet(p, n) ==
  IF p = 1 THEN {C \in Mats(1, n, -NC..NC) : NoZeroRow(C)}
  ELSE IF n = 1 THEN {<< <<1>>, <<1>> >>, << <<1>>, <<-1>> >>, << <<2>>, <<1>> >>}
  ELSE {<< <<1, 0>>, <<0, 1>> >>, << <<1, 0>>, <<1, 1>> >>, << <<1, -1>>, <<0, 1>> >>,
        << <<0, 1>>, <<1, 0>> >>, << <<1, 1>>, <<1, -1>> >>, << <<1, 1>>, <<1, 1>> >>}

Lp0(n) == IF n = 1 THEN << <<1>> >> ELSE << <<1, 0>>, <<1, 1>> >>
\* the smallest factor [[c,0],[1,c]] (n = 1: [[c]]) whose square dominates M:  c^2 - c > trace M
Dominate(M) ==
  LET t == IF Len(M) = 1 THEN M[1][1] ELSE M[1][1] + M[2][2]
      c == CHOOSE k \in 1..40 : k * k - k > t /\ (k = 1 \/ (k - 1) * (k - 1) - (k - 1) <= t) IN
  IF Len(M) = 1 THEN << <<c>> >> ELSE << <<c, 0>>, <<1, c>> >>
JLJ(J, Lp) == IMM(IMM(J, LLt(Lp)), ITr(J))

\* ---- coarse choices (Init) and the instance families completing them (Configure)
ASum(A) == IF Len(A) = 1 THEN A[1][1] ELSE A[1][1] + 3 * A[1][2] + 9 * A[2][1] + 27 * A[2][2]
Coarse ==
  LET Fams == {"cov"} \cup (IF MeanFam THEN {"mean"} ELSE {}) \cup (IF NonLin THEN {"nonlin"} ELSE {}) IN
  UNION { { c \in { [fam |-> fam, d |-> d, nk |-> nk, A |-> A] :
                      nk \in (IF fam = "cov" THEN NKs ELSE NKm),
                      A \in Mats(DimN(d), DimN(d),
                                 IF fam = "cov" THEN -NA..NA ELSE IF fam = "mean" THEN -1..1 ELSE 0..1) } :
              ((ASum(c.A) + c.nk) % (IF c.fam = "mean" THEN ThinM ELSE Thin)) = 0 } :
          fam \in Fams, d \in Dims }

\* covariance family: every (Lp, A, L2p, C, R, nk) of the lattice, one generic mean profile
CovSet(c) ==
  LET n == DimN(c.d)  p == DimP(c.d)
      LL == {ll \in LowTri(n, DL, -NL..NL) \X LowTri(n, DL2, -NL2..NL2) :
               /\ ((ASum(ll[1]) + 2 * ASum(ll[2]) + ASum(c.A) + c.nk) % Thin2) = 0
               /\ IPD(IMSub(LLt(ll[2]), JLJ(c.A, ll[1])))} IN
  {Base(n, p, c.nk, ll[1], c.A, ll[2], C, RMat(p, r)) : ll \in LL, C \in CSet(p, n), r \in NRs}

\* mean family: few covariances; every x, u (m = 1, 2), offsets on/off, three measurements
MeanSet(c) ==
  LET n == DimN(c.d)  p == DimP(c.d)
      b == Base(n, p, c.nk, Lp0(n), c.A, Dominate(JLJ(c.A, Lp0(n))), GenMat(p, n, 1), RMat(p, 2)) IN
  { [b EXCEPT !.m = m, !.x = x, !.u = GenVec(m, 3), !.B = GenMat(n, m, 1 + off),
              !.D = GenMat(p, m, 2 - off), !.c1 = GenVec(n, 2 * off), !.c2 = GenVec(p, off),
              !.ys = {GenVec(p, 0), GenVec(p, 3)}, !.fam = "mean"] :
      x \in Vecs(n, {-1, 2}), m \in 1..2, off \in {0, 1} }

\* nonlinear family (EKF clauses): quadratic terms in f and g
NonLinSet(c) ==
  LET n == DimN(c.d)  p == DimP(c.d)
      b == Base(n, p, c.nk, Lp0(n), c.A, Lp0(n), GenMat(p, n, 1), RMat(p, 2)) IN
  { LET I == [b EXCEPT !.fa = fa, !.ga = ga, !.x = x, !.ys = {GenVec(p, 1), GenVec(p, 3)},
                       !.fam = "nonlin"] IN
    [I EXCEPT !.L2p = Dominate(JLJ(IJac(I), I.Lp))] :
      fa \in Vecs(n, -1..1), ga \in Vecs(p, -1..1), x \in Vecs(n, {-1, 1, 2}) }

Insts(c) ==
  {I \in (CASE c.fam = "cov" -> CovSet(c) [] c.fam = "mean" -> MeanSet(c) [] OTHER -> NonLinSet(c)) :
     ValidInst(I) /\ (I.fam = "nonlin" => ~(\A i \in 1..I.n : I.fa[i] = 0) \/ ~(\A j \in 1..I.p : I.ga[j] = 0))}

\* ---- re-seeding a run from the posterior: the next prior is a lattice point derived from the
\* exact posterior (rounded mean, clipped; factor entries from the size/sign of the covariance),
\* so that a run of many steps keeps small numerators.  The run keeps the system (A..c2, R) and
\* feeds a new input and measurement pattern at every step.
RoundQ(a) == (2 * a[1] + a[2]) \div (2 * a[2])
Clip(v, lo, hi) == IF v < lo THEN lo ELSE IF v > hi THEN hi ELSE v
Sgn(v) == IF v > 0 THEN 1 ELSE IF v < 0 THEN -1 ELSE 0
LpFrom(P, nk) ==
  LET a == IF QLe(QI(4 * nk), P[1][1]) THEN 2 ELSE 1 IN
  IF Len(P) = 1 THEN << <<a>> >>
  ELSE << <<a, 0>>, <<Sgn(P[2][1][1]), IF QLe(QI(4 * nk), P[2][2]) THEN 2 ELSE 1>> >>
XClip(I) == IF \A i \in 1..I.n : I.fa[i] = 0 THEN 3 ELSE 1
Lp0Like(L) == IF Len(L) = 1 THEN << <<1>> >> ELSE << <<1, 0>>, <<L[2][1], 1>> >>
ReseedInst(I, post) ==
  LET J1 == [I EXCEPT !.x = Mk(I.n, LAMBDA i : Clip(RoundQ(post.x[i]), -XClip(I), XClip(I))),
                      !.Lp = LpFrom(post.P, I.nk),
                      !.u = GenVec(I.m, 1 + (I.step % 3)),
                      !.ys = {GenVec(I.p, 1 + ((I.step + 1) % 3))},
                      !.step = I.step + 1]
      J2 == [J1 EXCEPT !.L2p = Dominate(JLJ(IJac(J1), J1.Lp))]
      J3 == [J1 EXCEPT !.Lp = Lp0Like(J1.Lp)] IN          \* smaller prior when the numbers would get too big
  IF Small(J2) THEN J2 ELSE [J3 EXCEPT !.L2p = Dominate(JLJ(IJac(J3), J3.Lp))]
CanReseed(I, post) == ValidInst(ReseedInst(I, post))

\* ============================================================= state machine
\* ph = "cfg": only the coarse choice (family, dimensions, n+k, A) has been made; Configure
\* completes the instance.  (Two stages so that TLC's workers share the enumeration.)
VARIABLES inst, ph, est, pred, out
vars == <<inst, ph, est, pred, out>>

Init ==
  /\ inst \in Coarse
  /\ ph = "cfg" /\ est = <<>> /\ pred = <<>> /\ out = <<>>

PriorOf(I) == [x |-> QV(I.x), P |-> QM(IP(I))]

Configure ==
  /\ ph = "cfg"
  /\ inst' \in Insts(inst)
  /\ ph' = "prior"
  /\ est' = PriorOf(inst')
  /\ UNCHANGED <<pred, out>>

\* equations 1-2 (time update).  For a nonlinear system the prediction is the EKF's.
Predict ==
  /\ ph = "prior"
  /\ LET s == SysOf(inst)  u == QV(inst.u)
         l == Linearise(s, est.x, u) IN
     pred' = KFPredict(l, est.x, est.P, u)
  /\ ph' = "pred"
  /\ UNCHANGED <<inst, est, out>>

\* everything one measurement update produces: equations 3-5 (kf) and one whole EKF.forward /
\* UKF.forward call from the same prior
Posteriors(I, e, pr, yi) ==
  LET s == SysOf(I)  u == QV(I.u)  y == QV(yi)
      l == Linearise(s, e.x, u)
      kf == KFUpdate(l, pr.x, pr.P, u, y) IN
  [y   |-> yi,
   kf  |-> [x |-> kf.x, P |-> kf.P],
   ekf |-> EKFStep(s, e.x, e.P, u, y),
   ukf |-> IF IsLinear(s)
           THEN UKFStep(s, e.x, e.P, u, y, I.nk, QM(IL1(I)), QM(IL2(I)))
           ELSE <<>>,
   \* gain times the linearisation residual of g at the predicted state
   res |-> MV(kf.K, VSub(G(l, pr.x, u), G(s, pr.x, u)))]

Update ==
  /\ ph = "pred"
  /\ \E yi \in inst.ys : out' = Posteriors(inst, est, pred, yi)
  /\ ph' = "post"
  /\ UNCHANGED <<inst, est, pred>>

\* next step of a run: the prior is re-seeded from the posterior (mean family only)
Reseed ==
  /\ ph = "post" /\ inst.fam = "mean" /\ inst.step < MaxSteps /\ CanReseed(inst, out.kf)
  /\ inst' = ReseedInst(inst, out.kf)
  /\ ph' = "prior"
  /\ est' = PriorOf(inst')
  /\ pred' = <<>> /\ out' = <<>>

Next == Configure \/ Predict \/ Update \/ Reseed
Spec == Init /\ [][Next]_vars

\* ============================================================= properties
Lin == IsLinear(SysOf(inst))

DataValid ==                                          \* the instance is what the statement quantifies over
  ph # "cfg" =>
  /\ ValidInst(inst)
  /\ PD(est.P) /\ PD(SysOf(inst).Q) /\ PD(SysOf(inst).R)
  /\ MM(QM(IL1(inst)), Tr(QM(IL1(inst)))) = MScale(QI(inst.nk), est.P)
  /\ inst.nk - inst.n > -inst.n

PredictedIsData ==                                    \* P- = nk L2p L2p' (so L2 is a factor of (n+k) P-)
  ph \in {"pred", "post"} => pred.P = QM(IMScale(inst.nk, LLt(inst.L2p))) /\ PD(pred.P)

EKFEqualsKF == (ph = "post" /\ Lin) => (out.ekf.x = out.kf.x /\ out.ekf.P = out.kf.P)

UKFEqualsKF == (ph = "post" /\ Lin) => (out.ukf.x = out.kf.x /\ out.ukf.P = out.kf.P)

UKFFactorsAreRoots == (ph = "post" /\ Lin) => out.ukf.factors

UKFPredictionIsKF == (ph = "post" /\ Lin) => (out.ukf.xm = pred.x /\ out.ukf.Pm = pred.P)

\* nonlinear: EKF = Kalman recursion of the linearisation at the prior mean, innovation at x-
EKFIsLinearisedKF ==
  ph = "post" =>
    /\ out.ekf.xm = pred.x /\ out.ekf.Pm = pred.P
    /\ out.ekf.P = out.kf.P
    /\ out.ekf.x = VAdd(out.kf.x, out.res)

PosteriorSymPSD ==
  ph = "post" =>
    /\ PSD(out.kf.P) /\ PSD(out.ekf.P)
    /\ Lin => PSD(out.ukf.P)

PosteriorLePrior ==                                   \* Loewner order: P+ <= P-
  ph = "post" =>
    /\ LoewnerLe(out.kf.P, pred.P) /\ LoewnerLe(out.ekf.P, out.ekf.Pm)
    /\ Lin => LoewnerLe(out.ukf.P, out.ukf.Pm)

Normalised ==                                         \* every stored rational is in lowest terms
  ph = "post" =>
    /\ \A i \in DOMAIN out.kf.x : IsQ(out.kf.x[i])
    /\ \A i \in DOMAIN out.kf.P : \A j \in DOMAIN out.kf.P : IsQ(out.kf.P[i][j])

\* ---- reachability witnesses (configs Kalman_wit_*.cfg): TLC must report each of them VIOLATED, which shows
\* that the antecedents of the properties above are reached (all four actions taken; linear and nonlinear posteriors)
NoSecondStepPosterior == ~(ph = "post" /\ inst.step = 2 /\ Lin)
NoNonlinearPosterior  == ~(ph = "post" /\ ~Lin)
=============================================================================
