-------------------------------- MODULE LieRing --------------------------------
(* The Lie-group formulas of LieExact written over an arbitrary commutative ring, given  *)
(* by operator constants.  Instantiated over dual numbers (module LieJac) every formula   *)
(* carries a value and an exact directional derivative; instantiated over plain dyadics    *)
(* it must coincide with LieExact (checked by TLC in LieJacMC).                            *)
(* All vectors are explicit tuples (TLC evaluates them eagerly).                          *)
EXTENDS Naturals, Integers, Sequences, TLC

CONSTANTS RAdd(_, _), RMul(_, _), RNeg(_), RInv(_),   \* RInv: inverse of a ring element with real part +-2^k
          RZero, ROne, RTwo, RHalf

RSub(a, b) == RAdd(a, RNeg(b))
RSum3(a, b, c) == RAdd(RAdd(a, b), c)

VAdd3(u, v)   == <<RAdd(u[1], v[1]), RAdd(u[2], v[2]), RAdd(u[3], v[3])>>
VSub3(u, v)   == <<RSub(u[1], v[1]), RSub(u[2], v[2]), RSub(u[3], v[3])>>
VNeg3(u)      == <<RNeg(u[1]), RNeg(u[2]), RNeg(u[3])>>
VScale3(c, u) == <<RMul(c, u[1]), RMul(c, u[2]), RMul(c, u[3])>>
Dot3(u, v)    == RSum3(RMul(u[1], v[1]), RMul(u[2], v[2]), RMul(u[3], v[3]))
Cross3(u, v)  == << RSub(RMul(u[2], v[3]), RMul(u[3], v[2])),
                    RSub(RMul(u[3], v[1]), RMul(u[1], v[3])),
                    RSub(RMul(u[1], v[2]), RMul(u[2], v[1])) >>
Zero3 == <<RZero, RZero, RZero>>

\* quaternions <<x, y, z, w>>
QV(q)    == <<q[1], q[2], q[3]>>
QOne     == <<RZero, RZero, RZero, ROne>>
QConj(q) == <<RNeg(q[1]), RNeg(q[2]), RNeg(q[3]), q[4]>>
QMul(p, q) ==
  LET pv == QV(p)  qv == QV(q)
      v  == VAdd3(VAdd3(VScale3(p[4], qv), VScale3(q[4], pv)), Cross3(pv, qv))
      w  == RSub(RMul(p[4], q[4]), Dot3(pv, qv))
  IN  <<v[1], v[2], v[3], w>>

\* rotation matrix (rows) of a unit quaternion: (w^2 - v.v) I + 2 v v^T + 2 w [v]x
Rot(q) ==
  LET x == q[1]  y == q[2]  z == q[3]  w == q[4]
      d == RSub(RMul(w, w), Dot3(QV(q), QV(q)))
      T(a, b) == RMul(RTwo, RMul(a, b))
  IN << <<RAdd(d, T(x, x)), RSub(T(x, y), T(w, z)), RAdd(T(x, z), T(w, y))>>,
        <<RAdd(T(x, y), T(w, z)), RAdd(d, T(y, y)), RSub(T(y, z), T(w, x))>>,
        <<RSub(T(x, z), T(w, y)), RAdd(T(y, z), T(w, x)), RAdd(d, T(z, z))>> >>
MatVec3(M, v) == <<Dot3(M[1], v), Dot3(M[2], v), Dot3(M[3], v)>>

Elem(t, q, s) == [t |-> t, q |-> q, s |-> s]
Id            == Elem(Zero3, QOne, ROne)
Mul(X, Y) == Elem(VAdd3(X.t, VScale3(X.s, MatVec3(Rot(X.q), Y.t))), QMul(X.q, Y.q), RMul(X.s, Y.s))
Inv(X)    == LET si == RInv(X.s)  qc == QConj(X.q) IN
             Elem(VNeg3(VScale3(si, MatVec3(Rot(qc), X.t))), qc, si)
Act3(X, p) == VAdd3(VScale3(X.s, MatVec3(Rot(X.q), p)), X.t)
Act4(X, p) == LET r == VAdd3(VScale3(X.s, MatVec3(Rot(X.q), <<p[1], p[2], p[3]>>)), VScale3(p[4], X.t)) IN
              <<r[1], r[2], r[3], p[4]>>

\* 4x4 matrices as tuples of rows
Mat4(X) ==
  LET R == Rot(X.q) IN
  << <<RMul(X.s, R[1][1]), RMul(X.s, R[1][2]), RMul(X.s, R[1][3]), X.t[1]>>,
     <<RMul(X.s, R[2][1]), RMul(X.s, R[2][2]), RMul(X.s, R[2][3]), X.t[2]>>,
     <<RMul(X.s, R[3][1]), RMul(X.s, R[3][2]), RMul(X.s, R[3][3]), X.t[3]>>,
     <<RZero, RZero, RZero, ROne>> >>
Dot4(u, v) == RAdd(RAdd(RMul(u[1], v[1]), RMul(u[2], v[2])), RAdd(RMul(u[3], v[3]), RMul(u[4], v[4])))
Col4(M, j) == <<M[1][j], M[2][j], M[3][j], M[4][j]>>
MatMul4(A, B) ==
  LET Row(i) == <<Dot4(A[i], Col4(B, 1)), Dot4(A[i], Col4(B, 2)), Dot4(A[i], Col4(B, 3)), Dot4(A[i], Col4(B, 4))>> IN
  <<Row(1), Row(2), Row(3), Row(4)>>

\* algebra elements [tau, phi, sigma], generator matrices, adjoint by conjugation
Alg(tau, phi, sigma) == [tau |-> tau, phi |-> phi, sigma |-> sigma]
Hat4(A) ==
  << <<A.sigma, RNeg(A.phi[3]), A.phi[2], A.tau[1]>>,
     <<A.phi[3], A.sigma, RNeg(A.phi[1]), A.tau[2]>>,
     <<RNeg(A.phi[2]), A.phi[1], A.sigma, A.tau[3]>>,
     <<RZero, RZero, RZero, RZero>> >>
Vee4(M) == Alg(<<M[1][4], M[2][4], M[3][4]>>, <<M[3][2], M[1][3], M[2][1]>>, M[1][1])
Adj(X, A)  == Vee4(MatMul4(MatMul4(Mat4(X), Hat4(A)), Mat4(Inv(X))))
AdjT(X, A) == Vee4(MatMul4(MatMul4(Mat4(Inv(X)), Hat4(A)), Mat4(X)))

\* Exp / Log where the series are finite: the real part of the argument is a pure translation
\* (phi = 0, sigma = 0) and its perturbation is first order.  With H0 = hat(x0), H0^2 = 0 and
\* H0 H1 = 0:   exp(H0 + e H1) = I + H0 + e (H1 + H1 H0 / 2).
ExpNearTrans(A) ==
  \* A = x0 + e a ; terms quadratic in the perturbation vanish in the dual ring
  LET half == VScale3(RHalf, VAdd3(VScale3(A.sigma, A.tau), Cross3(A.phi, A.tau))) IN
  Elem(VAdd3(A.tau, half),
       <<RMul(RHalf, A.phi[1]), RMul(RHalf, A.phi[2]), RMul(RHalf, A.phi[3]), ROne>>,
       RAdd(ROne, A.sigma))
LogNearTrans(X) ==
  \* X = (t0, 1, 1) perturbed to first order: sigma = s - 1, phi = 2 v, tau = t - (sigma t + phi x t)/2
  LET sg  == RSub(X.s, ROne)
      phi == VScale3(RTwo, QV(X.q))
      tau == VSub3(X.t, VScale3(RHalf, VAdd3(VScale3(sg, X.t), Cross3(phi, X.t))))
  IN  Alg(tau, phi, sg)
Retr(X, A) == Mul(ExpNearTrans(A), X)
================================================================================
