\* thorough: every pattern pair on 3x3 . 3x3 block grids (2^9 x 2^9 pairs)
SPECIFICATION Spec
CONSTANTS
  SM = 3
  SN = 3
  SP = 3
INVARIANT K2InRange
INVARIANT HitsAreMatches
INVARIANT VisitsExactly
INVARIANT IndexConsistent
INVARIANT RunAgrees
CHECK_DEADLOCK FALSE
