---------------------------- MODULE PatchingTrace ----------------------------
(* Validates recorded runs of the real pypose.retain_ltype / pypose.func.jacrev (nested, *)
(* with faults raised at scripted points) against Patching.  Every event carries the     *)
(* `is`-identity of the three patched torch attributes as small integers (0 = the        *)
(* original function object captured before any patching, k > 0 = the k-th other         *)
(* object seen).  The abstract state of Patching is stepped along (each event must be    *)
(* an enabled action of the model), and the property is judged on identities:            *)
(*   Exit (normal or unwinding) re-establishes exactly the objects found by its Enter;   *)
(*   whenever the model is quiescent all three attributes are the original objects;      *)
(*   an exception raised in a body still propagates out of the context.                  *)
(* "Opaque" is a whole Enter..Exit that cannot be observed from inside (func.jacrev      *)
(* failing before / after the user function runs).                                       *)
EXTENDS Naturals, Sequences, FiniteSets, TLC, Json, IOUtils

CONSTANTS TDepth, TPoints

Traces == JsonDeserialize(IOEnv.TRACE_FILE)

VARIABLES tid, l, st, verdict
\* st = [m |-> Patching state, b |-> identities last logged, pres |-> identities logged before each open Enter]

P == INSTANCE Patching WITH MaxDepth <- TDepth, Points <- TPoints, HasFinally <- TRUE,
                            state <- 0, lastAct <- 0

AllZero(b) == \A i \in 1..Len(b) : b[i] = 0

Matches(m, e) == { p \in P!Succ(m) : p[1].a = e.act /\ (e.act \in {"Enter", "Exit"} => p[1].via = e.via) }

Clause(s, e) ==
  CASE e.act = "Pre" -> IF AllZero(e.b) THEN "ok" ELSE "harness_not_started_from_originals"
    [] e.act = "Opaque" ->
         IF e.b # s.b THEN "not_restored"
         ELSE IF P!Quiescent(s.m) /\ ~AllZero(e.b) THEN "not_orig_when_quiescent" ELSE "ok"
    [] Matches(s.m, e) = {} -> "event_not_enabled_in_model"
    [] e.act = "Exit" ->
         LET m2 == (CHOOSE p \in Matches(s.m, e) : TRUE)[2] IN
         IF e.b # s.pres[Len(s.pres)] THEN "not_restored"
         ELSE IF P!Quiescent(m2) /\ ~AllZero(e.b) THEN "not_orig_when_quiescent"
         ELSE IF e.raised # (m2.exc # "no") THEN "exception_swallowed_or_invented"
         ELSE "ok"
    [] OTHER -> "ok"

NextSt(s, e) ==
  CASE e.act \in {"Pre", "Opaque"} -> [s EXCEPT !.b = e.b]
    [] Matches(s.m, e) = {} -> [s EXCEPT !.b = e.b]
    [] OTHER ->
         LET m2 == (CHOOSE p \in Matches(s.m, e) : TRUE)[2] IN
         [m |-> m2, b |-> e.b,
          pres |-> CASE e.act = "Enter" -> Append(s.pres, s.b)
                     [] e.act = "Exit"  -> SubSeq(s.pres, 1, Len(s.pres) - 1)
                     [] OTHER -> s.pres]

Init == /\ tid \in 1..Len(Traces) /\ l = 1 /\ verdict = "ok"
        /\ st = [m |-> P!InitState, b |-> <<0, 0, 0>>, pres |-> <<>>]

Next ==
  LET T == Traces[tid] IN
  /\ l <= Len(T.ev)
  /\ LET e  == T.ev[l]
         cl == Clause(st, e) IN
       /\ verdict' = IF verdict = "ok" /\ cl # "ok" THEN cl \o "@" \o ToString(l) ELSE verdict
       /\ st' = NextSt(st, e)
       /\ (l = Len(T.ev)) =>
            PrintT(<<"VERDICT", tid,
                     IF verdict' = "ok" /\ ~(P!Quiescent(st'.m) /\ st'.m.exc = "no")
                     THEN "trace_ends_inside_context@" \o ToString(l) ELSE verdict'>>)
  /\ l' = l + 1 /\ UNCHANGED tid

Spec == Init /\ [][Next]_<<tid, l, st, verdict>>

\* the design invariants evaluated on the abstract state along every recorded run
ModelRestored == P!Quiescent(st.m) => P!AllOrig(st.m.bind)
================================================================================
