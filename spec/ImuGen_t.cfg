\* every chunking of F = 1..10 frames (1023 compositions) x reset flag
SPECIFICATION Spec
CONSTANT GF = {1, 2, 3, 4, 5, 6, 7, 8, 9, 10}
