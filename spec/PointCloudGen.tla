---------------------------- MODULE PointCloudGen ----------------------------
(* spec -> code: tabulates, for every cloud of <= GMaxN points on the grid and EVERY    *)
(* ordering of it (outliers at every array position), what PointCloud says every public  *)
(* call must return: knn values/indices (with the positions at which the index is        *)
(* determined), nbr_filter masks and kept rows, knn_filter rows (with/without radius;     *)
(* judged flags), voxel centroids.  The harness runs the real functions on every entry    *)
(* and compares exactly.                                                                  *)
EXTENDS Naturals, Integers, Sequences, FiniteSets, TLC, Json, IOUtils

CONSTANTS GGrid, GPD, GMaxN, GOrds, GRadii, GVox

PC == INSTANCE PointCloud WITH
        Grid <- GGrid, PD <- GPD, MaxN <- GMaxN, Ords <- GOrds, Radii <- GRadii, VoxSizes <- GVox,
        Gather <- "all", base <- <<>>, pts <- <<>>, sigma <- <<>>, call <- [fn |-> "none"], res <- <<>>

Perms(n) == {p \in [1..n -> 1..n] : PC!Injective(p)}
Orderings ==
  UNION {UNION {{[i \in 1..n |-> PC!WithTag(s)[p[i]]] : p \in Perms(n)} : s \in PC!SortedClouds(n)}
         : n \in 1..GMaxN}

KnnRows(P) ==
  {LET r == PC!KnnImpl(ord, GPD, P, P, k, lg) IN
     [ord |-> ord, k |-> k, largest |-> lg, vals |-> r.vals, idx |-> r.idx,
      det |-> [i \in 1..Len(P) |-> [j \in 1..k |->
                 PC!UniqueAt(PC!KeyRow(PC!DistRow(ord, GPD, P[i], P), lg), j)]]]
   : ord \in GOrds, k \in 1..Len(P), lg \in BOOLEAN}

NbrRows(P) ==
  {LET m == PC!NbrMaskDef(ord, GPD, P, n, rh) IN
     [ord |-> ord, n |-> n, rh |-> rh, mask |-> m, kept |-> PC!SelRows(P, m)]
   : ord \in GOrds, n \in 0..Len(P), rh \in GRadii}

KnnfRows(P) ==
  {[ord |-> ord, k |-> k, rh |-> rh, rows |-> PC!KnnfImpl(ord, GPD, P, k, rh, "all").rows]
   : ord \in GOrds, k \in 0..(Len(P) - 1), rh \in GRadii \cup {-1}}

VoxRows(P) ==
  {[vs |-> vs, count |-> PC!VoxelCount(P, vs), centroids |-> PC!VoxelCentroidsDef(P, vs)]
   : vs \in [1..GPD -> GVox]}

Table == {[P |-> P, knn |-> KnnRows(P), nbr |-> NbrRows(P), knnf |-> KnnfRows(P), vox |-> VoxRows(P)]
          : P \in Orderings}

ASSUME JsonSerialize(IOEnv.OUT_FILE, [pd |-> GPD, table |-> Table])
ASSUME PrintT(<<"ORDERINGS", Cardinality(Orderings)>>)

VARIABLE x
Init == x = 0
Next == UNCHANGED x
Spec == Init /\ [][Next]_x
================================================================================
