------------------------------- MODULE Align -------------------------------
(* Point-set alignment (pypose.svdtf / pypose.svdstf, used by ICP and EPnP), exact.       *)
(*                                                                                        *)
(* Given corresponding clouds x_1..x_N (source) and y_1..y_N (target) the functions       *)
(* return the rigid (R, t) resp. similarity (s, R, t) transform minimising                *)
(*        SSR = sum_i | y_i - (s R x_i + t) |^2 ,   R^T R = I, det R = +1, s > 0.          *)
(* The module follows the code: centroids, centred clouds, the cross-covariance           *)
(* H = sum_i y'_i x'_i^T (svdtf's M, svdstf's N*H), then the choice of the rotation, then  *)
(* scale and translation.  The SVD is not available in exact arithmetic; instead the       *)
(* module works with a finite CANDIDATE set: the 24 rotations of the cube (signed          *)
(* permutation matrices with det +1), each with its optimal translation (and scale).       *)
(* For a fixed rotation R the optimal t is  ybar - s R xbar, the optimal s is               *)
(* tr(R^T H)/sum|x'|^2, and                                                                *)
(*    rigid:      SSR(R) = sum|y'|^2 + sum|x'|^2 - 2 tr(R^T H)                             *)
(*    similarity: SSR(R) = sum|y'|^2 - tr(R^T H)^2 / sum|x'|^2                              *)
(* All sums are kept multiplied by N (prefix N...) so that everything is an integer:       *)
(*    nb = N sum|x|^2 - |sum x|^2,  nc likewise for y,  nh = N sum y x^T - (sum y)(sum x)^T *)
(*                                                                                        *)
(* What TLC decides here (invariants below), for every enumerated integer cloud in the      *)
(* classes generic / planar / collinear / minimal (3 points) / duplicated, every true       *)
(* transform from the lattice (12 Hurwitz rotations x integer translation x scale 2^k)      *)
(* and every enumerated integer noise pattern:                                              *)
(*   * exact correspondences: the candidate of the true rotation has SSR 0 and its optimal  *)
(*     translation/scale ARE the true ones; it is the unique minimiser among the candidates *)
(*     when the cloud is not collinear; collinear clouds on a symmetry axis have several     *)
(*     minimisers (why those classes are judged by SSR and properness only);                 *)
(*   * the closed forms above agree with the definition of SSR, residual by residual;        *)
(*   * noisy correspondences: the best candidate SSR (an upper bound for the SSR of any      *)
(*     optimal method) is at most the noise energy;                                          *)
(*   * reflection handling: whenever the best ORTHOGONAL candidate is a reflection Q, the    *)
(*     matrix -Q (the result of negating the whole matrix) is a proper rotation with the      *)
(*     LARGEST SSR of all 24 candidates - negation is not a repair;                           *)
(*   * every candidate is Proper (R^T R = I, det = +1).                                       *)
(* Align_defect.cfg states the opposite of the reflection lemma (NegationRepairIsOptimal);    *)
(* TLC must produce a counterexample.                                                         *)
(* The same operators judge what the real functions returned (AlignTrace) and tabulate     *)
(* the bounds for spec -> code comparison (AlignGen).                                       *)
EXTENDS LieExact

CONSTANTS P3, P4, P5, P6,  \* point codes (100 x + 10 y + z, digits 0..9) the clouds of size 3..6 draw from; {} = size off
          MultiSizes,      \* sizes whose clouds may repeat a point (non-decreasing code sequences): class "duplicated"
          UnitKinds,       \* true rotations: "axis" = units 1, i, j, k (identity, half turns), "half" = (+-1+-i+-j+-k)/2
          TransCodes,      \* true translations, code 100 (a+5) + 10 (b+5) + (c+5)
          ScaleHalves,     \* true scales in halves (1 -> 1/2, 2 -> 1, 4 -> 2)
          NoiseKinds       \* subset of {"none", "one", "alt"}

VARIABLES pc,     \* "cloud" | "data" | "moments" | "done"
          src,    \* source cloud: sequence of integer points
          cls,    \* its configuration class
          X,      \* true transform, a LieExact element [t, q, s]
          noise,  \* integer noise added to the exact targets, one vector per point
          tgt,    \* target cloud (dyadic points): Act3(X, src_i) + noise_i
          mom,    \* centred moments of the integerised clouds (first half of svdtf / svdstf)
          sol     \* candidate ranking (second half)

vars == <<pc, src, cls, X, noise, tgt, mom, sol>>

\* ================================================================ tolerances of the floating clauses
\* (constants of the specification; fixed with >= 4x margin over what the repaired tree measures)
CondMax    == 64     \* a cloud is well conditioned when (sum lambda)^2 <= CondMax * sum_{i<j} lambda_i lambda_j
SnapTol    == 256    \* a returned component may differ from the lattice value by SnapTol * eps * scale
QnTol      == 64     \* | |q|^2 - 1 | <= QnTol * eps
OrthTol    == 64     \* max |R^T R - I|, |det R - 1| <= OrthTol * eps       (mode R, recomputed from the result)
FpBits     == 10     \* SSR of a result is logged in units of 2^-FpBits (floor), of the integerised clouds
SsrTolFp   == 2      \* slack of the candidate bound, in those units
ExcessTol  == 64     \* SSR(result) - SSR(independent optimum) <= ExcessTol * eps * (sum|y|^2 + s^2 sum|x|^2)
PoseTol    == 4096   \* mode R: exact correspondences, well conditioned: pose error <= PoseTol * eps * scale
MonoOne    == 1048576 \* ICP: mean squared distances are logged relative to the initial one = 2^20
MonoTol    == 1024   \* after <= before * (1 + 2^-10)
IcpRecTol  == 4096   \* ICP on an exact small rigid perturbation: pose error <= IcpRecTol * eps * scale
EpnpTol(refine) == IF refine THEN 1000 ELSE 100000   \* EPnP pose error in units of 1e-12 (float64)

\* ================================================================ integer vectors and matrices
IAdd(u, v)   == <<u[1] + v[1], u[2] + v[2], u[3] + v[3]>>
ISub(u, v)   == <<u[1] - v[1], u[2] - v[2], u[3] - v[3]>>
IScale(c, u) == <<c * u[1], c * u[2], c * u[3]>>
IDot(u, v)   == u[1] * v[1] + u[2] * v[2] + u[3] * v[3]
INorm2(u)    == IDot(u, u)
ICross(u, v) == <<u[2] * v[3] - u[3] * v[2], u[3] * v[1] - u[1] * v[3], u[1] * v[2] - u[2] * v[1]>>
IZero        == <<0, 0, 0>>
IAbs(a)      == IF a < 0 THEN -a ELSE a

RECURSIVE ISumTo(_, _)
ISumTo(c, n) == IF n = 0 THEN IZero ELSE IAdd(ISumTo(c, n - 1), c[n])
ISum(c)      == ISumTo(c, Len(c))
RECURSIVE SumTo(_, _)                      \* sum of a sequence of integers
SumTo(f, n)  == IF n = 0 THEN 0 ELSE SumTo(f, n - 1) + f[n]
Sum(f)       == SumTo(f, Len(f))
SumSq(c)     == Sum([i \in 1..Len(c) |-> INorm2(c[i])])
RECURSIVE MaxTo(_, _)
MaxTo(f, n)  == IF n = 0 THEN 0 ELSE LET m == MaxTo(f, n - 1) IN IF f[n] > m THEN f[n] ELSE m
MaxAbs(c)    == MaxTo([i \in 1..Len(c) |-> MaxTo(<<IAbs(c[i][1]), IAbs(c[i][2]), IAbs(c[i][3])>>, 3)], Len(c))

IIdent3         == << <<1, 0, 0>>, <<0, 1, 0>>, <<0, 0, 1>> >>
ITranspose(A)   == [j \in 1..3 |-> [i \in 1..3 |-> A[i][j]]]
IMatMul(A, B)   == [i \in 1..3 |-> [j \in 1..3 |-> A[i][1] * B[1][j] + A[i][2] * B[2][j] + A[i][3] * B[3][j]]]
IDet3(A)        == IDot(A[1], ICross(A[2], A[3]))
Proper(R)       == IMatMul(ITranspose(R), R) = IIdent3 /\ IDet3(R) = 1
Improper(R)     == IMatMul(ITranspose(R), R) = IIdent3 /\ IDet3(R) = -1

\* the same for dyadic matrices (rotation matrix recomputed from a returned, snapped quaternion)
DDet3(A)   == Dot(A[1], Cross(A[2], A[3]))
DProper(R) == MatMul(Transpose(R), R) = Ident(3) /\ DDet3(R) = DOne

\* ================================================================ the candidate rotations
\* a signed permutation g = [p, s]:  (g x)_i = s_i x_{p_i}
Perms3      == {<<1, 2, 3>>, <<2, 3, 1>>, <<3, 1, 2>>, <<1, 3, 2>>, <<3, 2, 1>>, <<2, 1, 3>>}
PermSign(p) == IF p \in {<<1, 2, 3>>, <<2, 3, 1>>, <<3, 1, 2>>} THEN 1 ELSE -1
Signs3      == {<<a, b, c>> : a \in {1, -1}, b \in {1, -1}, c \in {1, -1}}
SignedPerms == [p : Perms3, s : Signs3]
GDet(g)     == PermSign(g.p) * g.s[1] * g.s[2] * g.s[3]
CubeRots    == {g \in SignedPerms : GDet(g) = 1}      \* the 24 candidates
CubeRefl    == {g \in SignedPerms : GDet(g) = -1}
GApply(g, x) == <<g.s[1] * x[g.p[1]], g.s[2] * x[g.p[2]], g.s[3] * x[g.p[3]]>>
GMat(g)     == [i \in 1..3 |-> [j \in 1..3 |-> IF j = g.p[i] THEN g.s[i] ELSE 0]]
GNeg(g)     == [p |-> g.p, s |-> <<-g.s[1], -g.s[2], -g.s[3]>>]
GId         == [p |-> <<1, 2, 3>>, s |-> <<1, 1, 1>>]
\* a fixed numbering 1..48 of the signed permutations (keeps the ranking in the state small)
PermSeq     == << <<1, 2, 3>>, <<2, 3, 1>>, <<3, 1, 2>>, <<1, 3, 2>>, <<3, 2, 1>>, <<2, 1, 3>> >>
PermIdxTab  == << <<0, 1, 4>>, <<6, 0, 2>>, <<3, 5, 0>> >>         \* by the first two images
PermIdx(p)  == PermIdxTab[p[1]][p[2]]
SignIdx(s)  == 1 + ((1 - s[1]) \div 2) * 4 + ((1 - s[2]) \div 2) * 2 + ((1 - s[3]) \div 2)
SignOfIdx(k) == <<1 - 2 * ((k - 1) \div 4), 1 - 2 * (((k - 1) \div 2) % 2), 1 - 2 * ((k - 1) % 2)>>
GIdx(g)     == (PermIdx(g.p) - 1) * 8 + SignIdx(g.s)
SPSeq       == [k \in 1..48 |-> [p |-> PermSeq[((k - 1) \div 8) + 1], s |-> SignOfIdx(((k - 1) % 8) + 1)]]
RotIdx      == {k \in 1..48 : GDet(SPSeq[k]) = 1}                  \* the 24 candidates, by number
ReflIdx     == {k \in 1..48 : GDet(SPSeq[k]) = -1}
NegIdx(k)   == ((k - 1) \div 8) * 8 + 8 - ((k - 1) % 8)            \* number of -g

\* link with LieExact: the rotation matrix of a Hurwitz unit is one of the candidates
IntOfD(v)    == <<v[1][1], v[2][1], v[3][1]>>          \* an integer dyadic vector as an integer vector
IsIntMat(M)  == \A i \in 1..3 : \A j \in 1..3 : M[i][j][2] = 0
IntMat(M)    == [i \in 1..3 |-> [j \in 1..3 |-> M[i][j][1]]]
GOfQuat(q)   == LET M == IntMat(Rot(q)) IN CHOOSE g \in CubeRots : GMat(g) = M
\* one unit per rotation: first non-zero of (w, x, y, z) positive
CanonUnits   == {q \in Units24 : LET f == <<q[4], q[1], q[2], q[3]>>
                                     k == CHOOSE k \in 1..4 : f[k][1] # 0 /\ \A j \in 1..(k - 1) : f[j][1] = 0
                                 IN  f[k][1] > 0}

\* tabulated once (constant): the candidate of every true rotation
G0Table == [q \in CanonUnits |-> GOfQuat(q)]
G0Idx   == [q \in CanonUnits |-> GIdx(G0Table[q])]
RotTable == [q \in CanonUnits |-> Rot(q)]

ASSUME CandidateFacts ==
  /\ Cardinality(CubeRots) = 24 /\ Cardinality(CubeRefl) = 24
  /\ {SPSeq[k] : k \in 1..48} = SignedPerms /\ \A k \in 1..48 : GIdx(SPSeq[k]) = k /\ SPSeq[NegIdx(k)] = GNeg(SPSeq[k])
  /\ {SPSeq[k] : k \in RotIdx} = CubeRots /\ {SPSeq[k] : k \in ReflIdx} = CubeRefl
  /\ \A g \in CubeRots : Proper(GMat(g))
  /\ \A g \in CubeRefl : Improper(GMat(g)) /\ GNeg(g) \in CubeRots
  /\ \A g \in CubeRots : \A h \in CubeRots : GMat(g) = GMat(h) => g = h
  /\ Cardinality(CanonUnits) = 12
  /\ \A q \in Units24 : /\ IsIntMat(Rot(q)) /\ DProper(Rot(q)) /\ Rot(q) = Rot(QNeg(q))
                        /\ \E g \in CubeRots : GMat(g) = IntMat(Rot(q))
  /\ Cardinality({G0Table[q] : q \in CanonUnits}) = 12
  \* the candidate acts like the rotation matrix of the quaternion and like the quaternion sandwich
  /\ \A q \in CanonUnits : \A k \in 1..3 :
        LET p == <<D(IF k = 1 THEN 1 ELSE 0), D(IF k = 2 THEN 1 ELSE 0), D(IF k = 3 THEN 2 ELSE 0)>>
            e == Elem(VZero(3), q, DOne)
        IN  /\ IntOfD(Act3(e, p)) = GApply(G0Table[q], IntOfD(p))
            /\ ActQ(e, p) = Act3(e, p)

\* ================================================================ clouds and their classes
PtOf(c)   == <<c \div 100, (c \div 10) % 10, c % 10>>
PSet(n)   == CASE n = 3 -> P3 [] n = 4 -> P4 [] n = 5 -> P5 [] n = 6 -> P6
Sizes     == {n \in 3..6 : PSet(n) # {}}
RECURSIVE IncSeqs(_, _, _)
IncSeqs(P, n, strict) ==
  IF n = 0 THEN {<<>>}
  ELSE UNION { {Append(s, c) : c \in {d \in P : \/ s = <<>>
                                                \/ (IF strict THEN d > s[Len(s)] ELSE d >= s[Len(s)])}} :
               s \in IncSeqs(P, n - 1, strict) }
Clouds == UNION { {[i \in 1..n |-> PtOf(c[i])] : c \in {d \in IncSeqs(PSet(n), n, n \notin MultiSizes) : d[1] # d[n]}} :
                  n \in Sizes }

Collinear(x) == \A i \in 2..Len(x) : \A j \in 2..Len(x) : ICross(ISub(x[i], x[1]), ISub(x[j], x[1])) = IZero
Coplanar(x)  == \A i \in 2..Len(x) : \A j \in 2..Len(x) : \A k \in 2..Len(x) :
                   IDot(ICross(ISub(x[i], x[1]), ISub(x[j], x[1])), ISub(x[k], x[1])) = 0
HasDup(x)    == \E i \in 1..Len(x) : \E j \in 1..Len(x) : i < j /\ x[i] = x[j]
AllSame(x)   == \A i \in 1..Len(x) : x[i] = x[1]
Class(x)     == IF Collinear(x) THEN "collinear" ELSE IF HasDup(x) THEN "duplicated"
                ELSE IF Len(x) = 3 THEN "minimal" ELSE IF Coplanar(x) THEN "planar" ELSE "generic"
Classes      == {"generic", "planar", "collinear", "minimal", "duplicated"}
NonDegenerate(x) == ~Collinear(x)          \* the optimal proper rotation of exact correspondences is unique

\* a non-trivial candidate rotation fixing the direction of a collinear cloud: the optimum is then not
\* unique even among the candidates
AxisSymmetric(x) == \E g \in CubeRots \ {GId} : \A i \in 2..Len(x) : GApply(g, ISub(x[i], x[1])) = ISub(x[i], x[1])

\* ================================================================ true transforms, noise, targets
TrOf(c)   == <<D((c \div 100) - 5), D(((c \div 10) % 10) - 5), D((c % 10) - 5)>>
ScOf(h)   == DNorm(<<h, 1>>)
UnitKind(q) == IF q[4][2] = 0 THEN "axis" ELSE "half"
Transforms == {Elem(TrOf(tc), q, ScOf(h)) : tc \in TransCodes, q \in {u \in CanonUnits : UnitKind(u) \in UnitKinds},
                                            h \in ScaleHalves}

IUnit(k, sg) == [j \in 1..3 |-> IF j = k THEN sg ELSE 0]
NoNoise(n)   == [i \in 1..n |-> IZero]
Noises(n) ==
  (IF "none" \in NoiseKinds THEN {NoNoise(n)} ELSE {}) \cup
  (IF "one" \in NoiseKinds
   THEN {[i \in 1..n |-> IF i = j THEN IUnit(k, sg) ELSE IZero] : j \in {1, n}, k \in 1..3, sg \in {1, -1}} ELSE {}) \cup
  (IF "alt" \in NoiseKinds
   THEN {[i \in 1..n |-> IUnit(k, IF i % 2 = 0 THEN 1 ELSE -1)] : k \in 1..3} ELSE {})

DPt(p)        == <<D(p[1]), D(p[2]), D(p[3])>>
\* = Act3(T, x_i) + noise_i of LieExact, with the rotation applied through its candidate (CandidateFacts)
Targets(T, x, nz) == LET g == G0Table[T.q] IN
                     [i \in 1..Len(x) |-> VAdd(VAdd(VScale(T.s, DPt(GApply(g, x[i]))), T.t), DPt(nz[i]))]

\* integerisation: both clouds multiplied by 2^e (the similarity scale and the rotation are unaffected,
\* translation scales by 2^e, SSR by 4^e)
MaxExp(y)     == MaxTo([i \in 1..Len(y) |-> MaxTo(<<y[i][1][2], y[i][2][2], y[i][3][2]>>, 3)], Len(y))
IntPt(v, e)   == <<v[1][1] * Pow2(e - v[1][2]), v[2][1] * Pow2(e - v[2][2]), v[3][1] * Pow2(e - v[3][2])>>
IntCloud(y, e) == [i \in 1..Len(y) |-> IntPt(y[i], e)]

\* ================================================================ svdtf / svdstf, first half: moments
Moments(x, y) ==
  LET n  == Len(x)
      sx == ISum(x)
      sy == ISum(y)
  IN [n  |-> n, sx |-> sx, sy |-> sy,
      nb |-> n * SumSq(x) - INorm2(sx),
      nc |-> n * SumSq(y) - INorm2(sy),
      nh |-> [a \in 1..3 |-> [b \in 1..3 |-> n * Sum([i \in 1..n |-> y[i][a] * x[i][b]]) - sy[a] * sx[b]]]]

\* scatter of the source and its conditioning (lambda = eigenvalues of the scatter matrix):
\* e1 = sum lambda (= nb), e2 = sum_{i<j} lambda_i lambda_j (sum of principal 2x2 minors), both N-scaled
Scatter(x) ==
  LET n == Len(x)  sx == ISum(x) IN
  [a \in 1..3 |-> [b \in 1..3 |-> n * Sum([i \in 1..n |-> x[i][a] * x[i][b]]) - sx[a] * sx[b]]]
E2(S) == (S[1][1] * S[2][2] - S[1][2] * S[2][1]) + (S[1][1] * S[3][3] - S[1][3] * S[3][1])
         + (S[2][2] * S[3][3] - S[2][3] * S[3][2])
WellConditioned(x) == LET S == Scatter(x)  e1 == S[1][1] + S[2][2] + S[3][3] IN e1 * e1 <= CondMax * E2(S)
WellPosed(x)       == NonDegenerate(x) /\ WellConditioned(x)

\* ================================================================ second half: rotation, scale, translation
NA(g, m)        == g.s[1] * m.nh[1][g.p[1]] + g.s[2] * m.nh[2][g.p[2]] + g.s[3] * m.nh[3][g.p[3]]   \* N tr(R^T H)
RigidNSSR(g, m) == m.nc + m.nb - 2 * NA(g, m)                                     \* N * SSR, rigid
\* similarity: N * SSR = SimNum / nb  (scale a/nb if a > 0; the infimum over s > 0 is at s -> 0 otherwise)
SimNum(g, m)    == LET a == NA(g, m) IN IF a <= 0 THEN m.nc * m.nb ELSE m.nc * m.nb - a * a
\* optimal translation of a candidate: rigid  t = TRigid / N;  similarity  t = TSim / (N nb), s = NA / nb
TRigid(g, m)    == ISub(m.sy, GApply(g, m.sx))
TSim(g, m)      == ISub(IScale(m.nb, m.sy), IScale(NA(g, m), GApply(g, m.sx)))

SetMaxOf(S) == CHOOSE v \in S : \A w \in S : w <= v
SetMinOf(S) == CHOOSE v \in S : \A w \in S : v <= w
Ranking(m) ==
  LET na      == [k \in 1..48 |-> NA(SPSeq[k], m)]
      amax    == SetMaxOf({na[k] : k \in RotIdx})
      amin    == SetMinOf({na[k] : k \in RotIdx})
      amaxAll == SetMaxOf({na[k] : k \in 1..48})
  IN [na |-> na, amax |-> amax, amin |-> amin, arg |-> {k \in RotIdx : na[k] = amax},
      amaxAll |-> amaxAll, argAll |-> {k \in 1..48 : na[k] = amaxAll}]
MinRigidNSSR(m, r) == m.nc + m.nb - 2 * r.amax
MinSimNum(m, r)    == IF r.amax <= 0 THEN m.nc * m.nb ELSE m.nc * m.nb - r.amax * r.amax

\* the bounds in the fixed-point unit of logged SSRs:  N * SSR * 2^FpBits  <=  ...Fp
RigidBoundFp(m, r) == MinRigidNSSR(m, r) * Pow2(FpBits)
SimBoundFp(m, r)   == LET num == MinSimNum(m, r) IN
                      (num \div m.nb) * Pow2(FpBits) + ((num % m.nb) * Pow2(FpBits)) \div m.nb + 1

\* ================================================================ the state machine
NoVal == [none |-> TRUE]

Init == /\ pc = "cloud" /\ src \in Clouds /\ cls = Class(src)
        /\ X = NoVal /\ noise = NoVal /\ tgt = NoVal /\ mom = NoVal /\ sol = NoVal

\* the caller's correspondences: target_i = X . source_i + noise_i
Correspond ==
  /\ pc = "cloud"
  /\ \E T \in Transforms : \E nz \in Noises(Len(src)) :
       /\ X' = T /\ noise' = nz /\ tgt' = Targets(T, src, nz)
  /\ pc' = "data" /\ UNCHANGED <<src, cls, mom, sol>>

\* centroids, centred clouds, cross-covariance (of the integerised clouds x, y, kept in the record)
ComputeMoments ==
  /\ pc = "data"
  /\ LET e == MaxExp(tgt)
         x == [i \in 1..Len(src) |-> IScale(Pow2(e), src[i])]
         y == IntCloud(tgt, e)
     IN  mom' = [Moments(x, y) EXCEPT !.n = Len(src)] @@ [e |-> e, x |-> x, y |-> y]
  /\ pc' = "moments" /\ UNCHANGED <<src, cls, X, noise, tgt, sol>>

\* choice of the rotation (and scale, translation); one action per configuration class so that
\* -coverage shows every class was explored
SolveBody ==
  /\ pc = "moments"
  /\ sol' = Ranking(mom) @@ [g0 |-> G0Idx[X.q]]
  /\ pc' = "done" /\ UNCHANGED <<src, cls, X, noise, tgt, mom>>
SolveGeneric    == /\ cls = "generic"    /\ SolveBody
SolvePlanar     == /\ cls = "planar"     /\ SolveBody
SolveCollinear  == /\ cls = "collinear"  /\ SolveBody
SolveMinimal    == /\ cls = "minimal"    /\ SolveBody
SolveDuplicated == /\ cls = "duplicated" /\ SolveBody

Next == Correspond \/ ComputeMoments \/ SolveGeneric \/ SolvePlanar \/ SolveCollinear \/ SolveMinimal \/ SolveDuplicated
Spec == Init /\ [][Next]_vars

\* ================================================================ properties
\* (candidates are referred to by their number k; SPSeq[k] is the signed permutation)
Done     == pc = "done"
Exact    == noise = NoNoise(Len(src))
IsRigid  == X.s = DOne
RigidOf(k) == mom.nc + mom.nb - 2 * sol.na[k]                         \* = RigidNSSR(SPSeq[k], mom)
SimOf(k)   == IF sol.na[k] <= 0 THEN mom.nc * mom.nb ELSE mom.nc * mom.nb - sol.na[k] * sol.na[k]
\* the true translation in integerised units
ITrue    == IntPt(X.t, mom.e)

TypeOK ==
  /\ pc \in {"cloud", "data", "moments", "done"}
  /\ Len(src) \in 3..6 /\ cls \in Classes
  /\ pc = "cloud" => ~AllSame(src) /\ cls = Class(src)
  /\ pc = "data" => /\ Valid("Sim3", X) /\ Len(tgt) = Len(src) /\ Len(noise) = Len(src)
                    /\ tgt[1] = VAdd(Act3(X, DPt(src[1])), DPt(noise[1]))        \* LieExact's action ...
                    /\ \A i \in 2..Len(src) :                                   \* ... with Rot(q) tabulated
                         tgt[i] = VAdd(VAdd(VScale(X.s, MatVec(RotTable[X.q], DPt(src[i]))), X.t), DPt(noise[i]))
  /\ pc \in {"moments", "done"} => mom.n = Len(src) /\ mom.nb > 0
  /\ Done => /\ sol.arg # {} /\ sol.arg \subseteq RotIdx /\ sol.g0 \in RotIdx
             /\ \A k \in RotIdx : /\ sol.na[k] = NA(SPSeq[k], mom) /\ RigidOf(k) = RigidNSSR(SPSeq[k], mom)
                                  /\ SimOf(k) = SimNum(SPSeq[k], mom)

\* exact correspondences are reproduced: SSR 0, and the optimal translation / scale of the true
\* rotation are the true ones
TrueRigidReproduced ==
  (Done /\ Exact /\ IsRigid) =>
     /\ RigidOf(sol.g0) = 0 /\ sol.g0 \in sol.arg
     /\ TRigid(SPSeq[sol.g0], mom) = IScale(mom.n, ITrue)
TrueSimReproduced ==
  (Done /\ Exact) =>
     /\ SimOf(sol.g0) = 0 /\ sol.g0 \in sol.arg
     /\ sol.na[sol.g0] > 0
     /\ sol.na[sol.g0] * Pow2(X.s[2]) = X.s[1] * mom.nb                 \* optimal scale = X.s
     /\ TSim(SPSeq[sol.g0], mom) = IScale(mom.n * mom.nb, ITrue)        \* optimal translation = X.t

\* ... and it is the only candidate with SSR 0 unless the cloud is collinear
UniqueRigidMinimiser ==
  (Done /\ Exact /\ IsRigid /\ cls # "collinear") =>
     {k \in RotIdx : RigidOf(k) = 0} = {sol.g0} /\ sol.arg = {sol.g0}
UniqueSimMinimiser ==
  (Done /\ Exact /\ cls # "collinear") =>
     {k \in RotIdx : SimOf(k) = 0} = {sol.g0} /\ sol.arg = {sol.g0}
\* collinear clouds along a symmetry axis of the cube: several candidates reach SSR 0
CollinearTies ==
  (Done /\ Exact /\ cls = "collinear" /\ AxisSymmetric(src)) => Cardinality({k \in RotIdx : SimOf(k) = 0}) >= 2

\* closed forms = definition, residual by residual (N-scaled residuals are integer vectors)
RigidResiduals(g) == [i \in 1..mom.n |->
                        ISub(IScale(mom.n, ISub(mom.y[i], GApply(g, mom.x[i]))), TRigid(g, mom))]
SimResiduals(g)   == [i \in 1..mom.n |->
                        ISub(ISub(IScale(mom.n * mom.nb, mom.y[i]), IScale(mom.n * NA(g, mom), GApply(g, mom.x[i]))),
                             TSim(g, mom))]
\* keeps the sums of squares below 2^31
SimCheckable      == mom.n * (mom.nb + sol.amaxAll) * (MaxAbs(mom.y) + MaxAbs(mom.x)) < 5000
RigidFormulaIsDefinition ==
  Done => \A k \in RotIdx : SumSq(RigidResiduals(SPSeq[k])) = mom.n * RigidOf(k)
SimFormulaIsDefinition ==
  (Done /\ SimCheckable) => \A k \in {h \in RotIdx : sol.na[h] > 0} :
                               SumSq(SimResiduals(SPSeq[k])) = mom.n * mom.nb * SimOf(k)
SSRNonNegative == Done => \A k \in RotIdx : RigidOf(k) >= 0 /\ SimOf(k) >= 0
\* a free scale cannot do worse:  SimNum / nb <= RigidNSSR
SimNotWorseThanRigid == Done => \A k \in RotIdx : SimOf(k) <= mom.nb * RigidOf(k)

\* the best candidate is at least as good as the true transform, whose SSR is the noise energy
NoiseEnergy == SumSq([i \in 1..Len(src) |-> IScale(Pow2(mom.e), noise[i])])
BestBoundedByNoise ==
  Done => /\ IsRigid => MinRigidNSSR(mom, sol) <= mom.n * NoiseEnergy
          /\ MinSimNum(mom, sol) <= mom.nb * mom.n * NoiseEnergy

\* reflection handling: if the best orthogonal candidate is a reflection Q, then -Q is proper but is the
\* WORST proper candidate (negating the whole matrix is not the det = -1 correction)
WholeNegationIsPessimal ==
  Done => \A k \in sol.argAll \cap ReflIdx :
             /\ NegIdx(k) \in RotIdx
             /\ sol.na[NegIdx(k)] = sol.amin
             /\ \A h \in RotIdx : RigidOf(NegIdx(k)) >= RigidOf(h)
\* The claim the unrepaired svdtf embodies ("if det = -1, negate the matrix") - NOT an invariant: Align_defect.cfg
\* asks TLC to refute it and the driver requires the counterexample.
NegationRepairIsOptimal ==
  Done => \A k \in sol.argAll \cap ReflIdx : RigidOf(NegIdx(k)) = MinRigidNSSR(mom, sol)
\* the best proper candidate is never better than the best orthogonal one
ProperWithinOrthogonal == Done => sol.amax <= sol.amaxAll
\* instances on which an SVD without reflection handling would return a reflection
ReflectionProne == Done /\ sol.argAll \cap RotIdx = {}
================================================================================
