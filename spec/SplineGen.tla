------------------------------- MODULE SplineGen -------------------------------
(* spec -> code: tabulates Spline!ChVal / Spline!BsVal (numerators over 2 D^3 / 6 D^3)  *)
(* for every sequence of control values in GP of length in GN and every interval 2^-m,  *)
(* m in GM; the harness runs the real chspline / bspline on every instance (one         *)
(* coordinate per row) and compares after snapping to the lattice.                      *)
EXTENDS Naturals, Integers, Sequences, TLC, Json, IOUtils, FiniteSets

S == INSTANCE Spline WITH NSet <- {}, PMax <- 0, MSet <- {}, CntMax <- 0,
                          task <- "", inp <- [m |-> 0], s <- 0, out <- <<>>

CONSTANTS GN, GPMax, GM

GP == (0 - GPMax)..GPMax
ChRows == UNION {{[p |-> p, m |-> m,
                   out |-> [k \in 1..S!ChCount(n, S!Pow2(m)) |-> S!ChVal(p, S!Pow2(m), k - 1)]] :
                    p \in [1..n -> GP], m \in GM} : n \in GN}
BsRows == UNION {{[p |-> p, m |-> m, ext |-> x,
                   out |-> [k \in 1..S!BsCount(n, S!Pow2(m), x) |-> S!BsVal(p, S!Pow2(m), x, k - 1)]] :
                    p \in [1..n -> GP], m \in GM, x \in {y \in BOOLEAN : y \/ n >= 4}} : n \in GN}

Table == [ch |-> ChRows, bs |-> BsRows]
ASSUME JsonSerialize(IOEnv.OUT_FILE, Table)
ASSUME PrintT(<<"ROWS", Cardinality(Table.ch), Cardinality(Table.bs)>>)

VARIABLE x
Init == x = 0
Next == UNCHANGED x
Spec == Init /\ [][Next]_x
================================================================================
