SPECIFICATION Spec
CONSTANT MaxL = 64
PROPERTY Terminates
CHECK_DEADLOCK FALSE
