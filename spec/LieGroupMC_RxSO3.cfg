SPECIFICATION Spec
CONSTANTS
  Ty = "RxSO3"
  TBox = 1
  SBox = 1
  TDen = 0
  Deep = FALSE
CONSTRAINT InBox
VIEW View
INVARIANT ValidElem
INVARIANT Homomorphism
INVARIANT BlocksAgree
INVARIANT InverseTwoSided
INVARIANT IdentityNeutral
INVARIANT ActIsMatrix
INVARIANT ActComposes
INVARIANT Associative
INVARIANT RotationOrthogonal
INVARIANT AdjIsGenerator
INVARIANT AdjInverse
INVARIANT AdjTIsAdjOfInv
INVARIANT AdjComposes
INVARIANT AdjExpIdentity
CHECK_DEADLOCK FALSE
