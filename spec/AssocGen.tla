------------------------------- MODULE AssocGen -------------------------------
(* spec -> code: tabulates Assoc over enumerated instances and writes the table as    *)
(* JSON; the harness runs matching_time_indices / pair_id of the real code on every   *)
(* instance and compares exactly (one implementation test per row).                   *)
(*   match rows : stamp lists over 0..GT with consecutive gaps >= 2d (the regime the   *)
(*                property quantifies over: jitter below the threshold), all           *)
(*                thresholds in GD, expected index pairs                               *)
(*   frame rows : all (n, delta, all) -> expected id pairs                             *)
(*   dist rows  : integer path lengths, restart mode -> expected id pairs; all mode    *)
(*                -> expected set of first ids and, where the minimiser is unique,     *)
(*                the partner                                                          *)
EXTENDS Naturals, Integers, Sequences, TLC, Json, IOUtils, FiniteSets

A == INSTANCE Assoc WITH TMax <- 0, N1Max <- 0, N2Max <- 0, DSet <- {}, PairN <- {}, PairD <- {},
                         StepSet <- {}, DistNMax <- 0, EMax <- 0, ENMax <- 0,
                         task <- "", inp <- <<>>, i <- 0, acc <- 0, out <- <<>>

CONSTANTS GT, GN, GD, GPairN, GPairD, GSteps, GDistN

SepSeqs(d) == UNION {{q \in A!AscSeqs(0..GT, n) : A!Separated(q, 2 * d)} : n \in 1..GN}

MatchRows == UNION {{[s1 |-> s1, s2 |-> s2, d |-> d, pairs |-> A!AssocPairs(s1, s2, d)] :
                       s1 \in SepSeqs(d), s2 \in SepSeqs(d)} : d \in GD}

FrameRows == {[n |-> n, dl |-> dl, all |-> all, pairs |-> A!FramePairs(n, dl, all)] :
                n \in GPairN, dl \in GPairD, all \in BOOLEAN}

Paths == UNION {{[k \in 1..n |-> A!SeqSum(SubSeq(st, 1, k - 1))] : st \in [1..(n - 1) -> GSteps]} :
                  n \in 2..GDistN}
Unique(cd, k, dl) == Cardinality(A!DistCands(cd, k, dl)) = 1
DistRows ==
  {[cd |-> cd, dl |-> dl, tol |-> tol,
    stride |-> A!DistStridePairs(cd, dl),
    allfirst |-> {k - 1 : k \in {x \in 1..(Len(cd) - 1) :
                     \E j \in A!DistCands(cd, x, dl) : A!Abs(cd[j] - cd[x] - dl) <= tol}},
    allpairs |-> {<<k - 1, A!SetMin(A!DistCands(cd, k, dl)) - 1>> :
                     k \in {x \in 1..(Len(cd) - 1) : Unique(cd, x, dl)
                              /\ A!Abs(cd[A!SetMin(A!DistCands(cd, x, dl))] - cd[x] - dl) <= tol}}] :
     cd \in Paths, dl \in GPairD, tol \in {0, 1}}

Table == [match |-> MatchRows, frame |-> FrameRows, dist |-> DistRows]
ASSUME JsonSerialize(IOEnv.OUT_FILE, Table)
ASSUME PrintT(<<"ROWS", Cardinality(Table.match), Cardinality(Table.frame), Cardinality(Table.dist)>>)

VARIABLE x
Init == x = 0
Next == UNCHANGED x
Spec == Init /\ [][Next]_x
================================================================================
