------------------------------- MODULE Patching -------------------------------
(* pypose.retain_ltype (a context manager, also used as the decorator inside            *)
(* pypose.func.jacrev) temporarily replaces three PyTorch internals                     *)
(*     torch.autograd.forward_ad.make_dual                                              *)
(*     torch._functorch.eager_transforms._wrap_tensor_for_grad                          *)
(*     torch._functorch.vmap._add_batch_dim                                             *)
(* by wrappers that carry the ltype over.  The model follows the code:                  *)
(*   Enter:  TO_BE_WRAPPED := the SET of the three functions currently bound; for each  *)
(*           f in it:  setattr(module(f.__module__), f.__name__, wrap(f)).  For an      *)
(*           original function the target is the torch attribute itself; for a wrapper  *)
(*           (nested use) __module__/__name__ are pypose.lietensor.lietensor/"wrapper", *)
(*           so the target is a stray module attribute and the torch attribute stays    *)
(*           bound to the outer wrapper.                                                *)
(*   Body:   Points steps, each either a plain step or a nested Enter; a fault can be   *)
(*           raised before any step and after the last one.                             *)
(*   Exit:   (finally) for each f in TO_BE_WRAPPED: setattr(target(f), f).              *)
(* An exception unwinds frame after frame until some enclosing body (or the caller)     *)
(* catches it.  HasFinally = FALSE is the mutant without try/finally.                   *)
(* The whole transition relation is the function Succ on state records, so that         *)
(* PatchingGen can enumerate complete scripts from the same definition.                 *)
EXTENDS Naturals, Sequences, FiniteSets, TLC

CONSTANTS MaxDepth,     \* nesting depth explored (property: <= 2)
          Points,       \* steps per body; faults at points 0..Points
          HasFinally    \* TRUE = the code as written

Attrs == {"make_dual", "wrap_for_grad", "add_batch_dim"}
Vias  == {"with", "jacrev"}

Orig(a)     == [kind |-> "orig", attr |-> a, depth |-> 0]
Wrap(f, d)  == [kind |-> "wrap", attr |-> f.attr, depth |-> d]      \* the wrapper made at depth d around f
None        == [kind |-> "none", attr |-> "", depth |-> 0]
Target(f)   == IF f.kind = "orig" THEN f.attr ELSE "stray"

InitState ==
  [bind  |-> [a \in Attrs |-> Orig(a)],
   stray |-> None,          \* pypose.lietensor.lietensor.wrapper (not a torch attribute)
   stack |-> <<>>,          \* frames [saved, pre, pc, via]; the top is the last element
   exc   |-> "no"]          \* "no" | "raised" (inside the body that raised) | "unwinding" (left >= 1 frame)

Top(s) == s.stack[Len(s.stack)]
Pop(s) == SubSeq(s.stack, 1, Len(s.stack) - 1)
BumpTop(s) == IF s.stack = <<>> THEN s.stack
              ELSE [s.stack EXCEPT ![Len(s.stack)].pc = s.stack[Len(s.stack)].pc + 1]

CanRun(s) == s.exc = "no" /\ (s.stack = <<>> \/ Top(s).pc < Points)

\* ---- Enter
EnterSucc(s) ==
  IF ~(CanRun(s) /\ Len(s.stack) < MaxDepth) THEN {}
  ELSE
    LET captured == { s.bind[a] : a \in Attrs }
        d        == Len(s.stack) + 1
        strayers == { f \in captured : Target(f) = "stray" }
        bind2    == [a \in Attrs |-> IF \E f \in captured : Target(f) = a
                                     THEN Wrap(CHOOSE f \in captured : Target(f) = a, d) ELSE s.bind[a]]
        frame(v) == [saved |-> captured, pre |-> s.bind, pc |-> 0, via |-> v]
        strays   == IF strayers = {} THEN {s.stray} ELSE { Wrap(f, d) : f \in strayers } IN
    { << [a |-> "Enter", via |-> v],
         [bind |-> bind2, stray |-> sy, stack |-> Append(BumpTop(s), frame(v)), exc |-> "no"] >>
        : v \in Vias, sy \in strays }

\* ---- one plain step of the innermost body
StepSucc(s) ==
  IF s.stack # <<>> /\ CanRun(s)
  THEN { << [a |-> "Step", via |-> ""], [s EXCEPT !.stack = BumpTop(s)] >> }
  ELSE {}

\* ---- a fault at the current point of the innermost body (points 0..Points)
RaiseSucc(s) ==
  IF s.stack # <<>> /\ s.exc = "no"
  THEN { << [a |-> "Raise", via |-> ""], [s EXCEPT !.exc = "raised"] >> }
  ELSE {}

\* ---- Exit of the innermost frame: normal end of its body, or unwinding
Restore(s) ==
  LET saved == Top(s).saved IN
  [bind  |-> [a \in Attrs |-> IF \E f \in saved : Target(f) = a
                              THEN CHOOSE f \in saved : Target(f) = a ELSE s.bind[a]],
   stray |-> IF \E f \in saved : Target(f) = "stray" THEN CHOOSE f \in saved : Target(f) = "stray" ELSE s.stray]
ExitSucc(s) ==
  IF s.stack # <<>> /\ (s.exc # "no" \/ Top(s).pc = Points)
  THEN LET r == IF s.exc # "no" /\ ~HasFinally THEN [bind |-> s.bind, stray |-> s.stray] ELSE Restore(s) IN
       { << [a |-> "Exit", via |-> Top(s).via],
            [bind |-> r.bind, stray |-> r.stray, stack |-> Pop(s),
             exc |-> IF s.exc = "no" THEN "no" ELSE "unwinding"] >> }
  ELSE {}

\* ---- the exception is caught by the enclosing body (which continues) or by the caller
CatchSucc(s) ==
  IF s.exc = "unwinding"
  THEN { << [a |-> "Catch", via |-> ""], [s EXCEPT !.exc = "no"] >> }
  ELSE {}

Succ(s) == EnterSucc(s) \cup StepSucc(s) \cup RaiseSucc(s) \cup ExitSucc(s) \cup CatchSucc(s)

\* ------------------------------------------------------------------ the state machine
VARIABLES state, lastAct
vars == <<state, lastAct>>

Init == state = InitState /\ lastAct = [a |-> "Init", via |-> "", pre |-> InitState.bind]
Next == \E p \in Succ(state) :
          /\ state' = p[2]
          /\ lastAct' = [a |-> p[1].a, via |-> p[1].via,
                         pre |-> IF p[1].a = "Exit" THEN Top(state).pre ELSE state.bind]
Spec == Init /\ [][Next]_vars

\* ------------------------------------------------------------------ properties
Quiescent(s)   == s.stack = <<>>
AllOrig(bv)    == \A a \in Attrs : bv[a] = Orig(a)
ExitOK(pre, post) == post = pre           \* an Exit re-establishes the bindings of the matching Enter

\* the property: in every reachable quiescent state all three bindings are the originals
RestoredWhenQuiescent == Quiescent(state) => AllOrig(state.bind)
\* every Exit (normal or unwinding, at any depth) restores what its Enter found
FrameRestores  == lastAct.a = "Exit" => ExitOK(lastAct.pre, state.bind)
\* inside a context every binding is a wrapper (the purpose of the patch)
WrappedInside  == ~Quiescent(state) => \A a \in Attrs : state.bind[a].kind = "wrap"
\* wrappers never nest on the torch attributes: each binding wraps the original directly
NoWrapperChains == \A a \in Attrs : state.bind[a].attr = a /\ state.bind[a].depth <= 1
DepthBound     == Len(state.stack) <= MaxDepth
TypeOK ==
  /\ state.exc \in {"no", "raised", "unwinding"}
  /\ \A i \in 1..Len(state.stack) : state.stack[i].pc \in 0..Points /\ state.stack[i].via \in Vias
\* observation (not part of the property): nested use leaves pypose.lietensor.lietensor.wrapper bound
StrayLeak      == Quiescent(state) => state.stray.kind = "none"
================================================================================
