\* every chunking of F = 1..8 frames (255 compositions) x reset flag
SPECIFICATION Spec
CONSTANT GF = {1, 2, 3, 4, 5, 6, 7, 8}
