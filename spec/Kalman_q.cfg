\* quick design config: n, p <= 2; n+k in {1,2,3,5} (k = nk - n > -n); every A with entries in -1..1;
\* non-diagonal factors of P and P-; covariance family + mean family + nonlinear family + runs of 2
SPECIFICATION Spec
CONSTANTS
  Variant = "doc"
  Dims = {11, 21, 22}
  NKs = {1, 2, 3, 5}
  NA = 1
  DL = {1}
  NL = 1
  DL2 = {3}
  NL2 = 1
  NC = 1
  NRs = {2}
  MeanFam = TRUE
  NonLin = TRUE
  MaxSteps = 2
  NKm = {3}
  ThinM = 2
  Thin2 = 1
  Thin = 4
INVARIANT DataValid
INVARIANT PredictedIsData
INVARIANT EKFEqualsKF
INVARIANT UKFEqualsKF
INVARIANT UKFFactorsAreRoots
INVARIANT UKFPredictionIsKF
INVARIANT EKFIsLinearisedKF
INVARIANT PosteriorSymPSD
INVARIANT PosteriorLePrior
INVARIANT Normalised
CHECK_DEADLOCK FALSE
