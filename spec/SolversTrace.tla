------------------------------ MODULE SolversTrace ------------------------------
(* Judges recorded calls of the real pypose.optim.solver classes against Solvers.tla.   *)
(* Inputs are logged as raw integers (matrices, right-hand sides, guesses); TLC itself   *)
(* classifies the matrix (PD / NotPD / rounding tie), recomputes the exact solution       *)
(* adj(A) b / det(A) resp. pinv(A) b as fractions, the rank, and the number of iterations *)
(* exact CG needs.  Outputs are floats, so the harness logs, per component, the integer   *)
(* distance in units of eps * max(1, |x|_inf) between the returned float and the          *)
(* fraction written by SolversGen (the fraction is logged too and re-derived here), and   *)
(* TLC compares the distances with the tolerances below.  Verdicts are total.  The calls  *)
(* are independent (the solvers are stateless), so the only trace-level clause is that    *)
(* the events are numbered 1..cfg.n without a gap ("event_sequence").                     *)
(*                                                                                        *)
(* events                                                                                 *)
(*  chol   Cholesky(upper)(As, bs) on a batch: out = "value" | "raise"                    *)
(*  ls     one matrix (all its right-hand sides) of a batched PINV and a batched LSTSQ    *)
(*         call                                                                           *)
(*  cg     CG(maxiter, tol)(A, b, x0, M) on a lattice instance (dense/CSR/COO/BSR)        *)
(*  big    sampled instance of order 4..40 (Mode R): only integer error measures          *)
(* Inputs scaled by powers of two (A 2^a, b 2^c) are logged unscaled: positive             *)
(* definiteness, rank, relative errors and exact-CG iteration counts do not change.       *)
EXTENDS Naturals, Integers, Sequences, FiniteSets, TLC, Json, IOUtils

Traces == JsonDeserialize(IOEnv.TRACE_FILE)

CgTolD == 32768          \* the tolerance 2^-15 at which SolversGen counted exact CG iterations

S == INSTANCE Solvers WITH
       Mode <- "trace", Dims <- {}, EMax <- 0, BMax <- 0, BUnit <- FALSE, LDims <- {}, LMax <- 1,
       UseX0 <- FALSE, X0Max <- 0, PrecMax <- 0, PrecFull <- FALSE, TolD <- CgTolD,
       ph <- "trace", A <- <<>>, b <- <<>>, x0 <- <<>>, M <- <<>>, cg <- [pc |-> "idle"]

VARIABLES tid, l, st, verdict      \* st = [judged |-> events consumed so far]

\* ---------------------------------------------------------------- tolerances (fixed constants)
TolUlps  == 256     \* lattice instances: measured <= 8 on the correct code (float32 and float64)
TolNres  == 256     \* normal-equation residual in the same unit: measured <= 7
TolBig   == 64      \* sampled instances: measure <= TolBig * n * 2^amp (see BigClause); measured <= n * 2^amp
\* documented CG bound |b - A x| <= tol |b|, in units of 1e-9, with 1/64 slack for the rounding of
\* the recurrence residual against the true one
CgAllowed(t) == t + t \div 64 + 1

Idx(q) == 1..Len(q)
Above(q, t)   == \E k \in Idx(q) : q[k] > t                         \* some entry of a vector exceeds t
Above2(qq, t) == \E k \in Idx(qq) : Above(qq[k], t)                 \* ... of a list of vectors

\* ---------------------------------------------------------------- clauses
CholClause(e) ==
  LET cls == [k \in Idx(e.As) |-> S!Class(e.As[k])] IN
  CASE \E k \in Idx(cls) : cls[k] = "Tie"  -> "ok"                      \* rounding tie: not judged
    [] \E k \in Idx(cls) : cls[k] = "NotPD" ->
         IF e.out = "raise" THEN "ok" ELSE "nonpd_not_raised"
    [] e.out = "raise" -> "pd_raised"
    [] \E k \in Idx(cls) : e.xs[k] # S!ExactSolve(e.As[k], e.bs[k]) -> "machinery_expected"
    [] Above2(e.ulps, TolUlps) -> "solution_ulps"
    [] OTHER -> "ok"

\* one matrix of a batched PINV call and of a batched LSTSQ call, with all its right-hand sides
LsClause(e) ==
  LET P    == S!Pinv(e.A)
      want == [k \in Idx(e.bs) |-> S!PinvSolveWith(P, e.bs[k])] IN
  CASE e.xs # want -> "machinery_expected"
    [] ~S!IsLeastSquares(e.A, e.bs[1], e.xs[1]) \/ ~S!IsMinNorm(e.A, e.xs[1]) -> "machinery_expected"
    [] e.pinv.out = "raise" -> "pinv_raised"
    [] Above2(e.pinv.ulps, TolUlps) -> "pinv_minnorm_solution_ulps"
    [] e.lstsq.out = "raise" -> "lstsq_raised"
    [] P.rank = S!Cols(e.A) /\ Above2(e.lstsq.ulps, TolUlps) -> "lstsq_solution_ulps"
    [] Above(e.lstsq.nres, TolNres) -> "lstsq_normal_equations"
    [] OTHER -> "ok"

CgClause(e) ==
  CASE e.out = "raise" -> "raised"
    [] S!IsZeroVec(e.b) -> IF e.zero THEN "ok" ELSE "b0_not_zero"
    [] OTHER ->
       LET run == S!CGRun(e.A, e.b, e.x0, e.M, CgTolD, S!DefaultMaxIter(Len(e.b))) IN
       CASE run.it # e.iters \/ run.it > Len(e.b) -> "machinery_expected"
         [] e.maxiter > 0 /\ e.maxiter < run.it -> "machinery_probe"
         [] e.rel_e9 > CgAllowed(e.tol_e9) ->
              IF e.maxiter > 0 THEN "not_converged_in_exact_iterations" ELSE "residual_above_tol"
         [] OTHER -> "ok"

\* sampled instances (orders 4..40): the harness measured, in exact rational arithmetic,
\*   ferr = |x - x*|_inf / (eps |x*|_inf)                  against the exact (min-norm) solution x*
\*   bres = |b - A x|_inf / (eps (|A|_inf |x|_inf + |b|_inf))            (backward-stable solvers)
\*   nres = |A'(A x - b)|_inf / (eps |A'|_inf (|b|_inf + |A|_inf |x|_inf))     (normal equations)
\* and logs elog = ceil(log2(measure)); amp = log2 of the amplification the input allows for the
\* measure (ceil log2 cond for an explicit pseudo-inverse solve, twice that for a least-squares
\* forward error, 0 for the residual measures).  Judged:  measure <= TolBig * n * 2^amp.
RECURSIVE CeilLog2(_)
CeilLog2(k) == IF k <= 1 THEN 0 ELSE 1 + CeilLog2((k + 1) \div 2)
BigAllowedLog(e) == e.amp + CeilLog2(TolBig) + CeilLog2(e.n)
BigClause(e) ==
  CASE e.expect = "raise" -> IF e.out = "raise" THEN "ok" ELSE "nonpd_not_raised"
    [] e.out = "raise" -> "raised"
    [] e.solver = "cg" ->
         IF e.bzero THEN (IF e.zero THEN "ok" ELSE "b0_not_zero")
         ELSE IF e.rel_e9 > CgAllowed(e.tol_e9) THEN "residual_above_tol" ELSE "ok"
    [] e.elog > BigAllowedLog(e) ->
         CASE e.measure = "ferr" -> "solution_error"
           [] e.measure = "bres" -> "residual_error"
           [] OTHER -> "normal_equations"
    [] OTHER -> "ok"

Clause(e) ==
  CASE e.act = "chol" -> CholClause(e)
    [] e.act = "ls" -> LsClause(e)
    [] e.act = "cg" -> CgClause(e)
    [] e.act = "big" -> BigClause(e)
    [] OTHER -> "unknown_event"

Init == tid \in 1..Len(Traces) /\ l = 1 /\ st = [judged |-> 0] /\ verdict = "ok"

Next ==
  LET T == Traces[tid] IN
  /\ l <= Len(T.ev)
  /\ LET e == T.ev[l]
         cl == IF e.i # l \/ (l = Len(T.ev) /\ T.cfg.n # l) THEN "event_sequence" ELSE Clause(e) IN
       /\ verdict' = IF verdict = "ok" /\ cl # "ok" THEN cl \o "@" \o ToString(l) ELSE verdict
       /\ st' = [judged |-> st.judged + 1]
       /\ (l = Len(T.ev)) => PrintT(<<"VERDICT", tid, verdict'>>)
  /\ l' = l + 1 /\ UNCHANGED tid

Spec == Init /\ [][Next]_<<tid, l, st, verdict>>
================================================================================
