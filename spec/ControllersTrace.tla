--------------------------- MODULE ControllersTrace ---------------------------
(* Validates executions recorded from the real StopOnPlateau / ReduceToBason objects  *)
(* (and the driver loops scheduler.optimize / MPC.forward / ICP.forward) against the   *)
(* transition functions of Controllers.  Losses are logged as integers, so the         *)
(* classification of each loss into the abstract alphabet is done here, not in the     *)
(* harness.  Verdicts are total: every event is consumed, the first failing clause is   *)
(* named, and the state is resynchronised to the logged one.                            *)
EXTENDS Naturals, Integers, Sequences, FiniteSets, TLC, Json, IOUtils

Traces == JsonDeserialize(IOEnv.TRACE_FILE)

C == INSTANCE Controllers WITH
       MaxStepsSet <- {}, PatienceSet <- {}, MaxLen <- 0, MaxResets <- 0, KeepHist <- FALSE, WithSnap <- FALSE, saved <- 0,
       c <- 0, steps <- 0, pc <- 0, cont <- TRUE, hist <- <<>>, n <- 0, resets <- 0, loop <- "idle"

VARIABLES tid, l, st, verdict
\* st = [steps, pc, cont, last, inloop, snap]; last = <<>> stands for +infinity (ReduceToBason);
\* snap = the controller state captured by the last "save" event (state_dict())

Pow2(k) == IF k = 0 THEN 1 ELSE 2 ^ k

\* ---- classification of a logged step into the abstract alphabet -------------------
Range(s) == {s[i] : i \in DOMAIN s}
NoImpSoP(cfg, e)  == (e.last - e.loss[1]) < cfg.dec
KillSoP(cfg, e)   == e.rej > 0
NoImpRtB(cfg, last, e) ==
  IF last = <<>> THEN FALSE
  ELSE \A i \in DOMAIN e.loss : (last[i] - e.loss[i]) * Pow2(cfg.deck) < e.loss[i]
KillRtB(cfg, e)   == \A i \in DOMAIN e.loss : e.loss[i] < cfg.tol

Abstract(cfg, s, e) ==
  IF cfg.kind = "SoP"
  THEN [dec |-> IF NoImpSoP(cfg, e) THEN "small" ELSE "big", kill |-> KillSoP(cfg, e)]
  ELSE [dec |-> IF NoImpRtB(cfg, s.last, e) THEN "small" ELSE "big", kill |-> KillRtB(cfg, e)]

\* ---- expected state after an event -----------------------------------------------
Expected(cfg, s, e) ==
  CASE e.act = "step" ->
         LET r == C!StepCtl(cfg, s, Abstract(cfg, s, e)) IN
           [steps |-> r.steps, pc |-> r.pc, cont |-> r.cont,
            last |-> IF cfg.kind = "RtB" THEN e.loss ELSE s.last, inloop |-> s.inloop]
    [] e.act \in {"reset", "loopstart_reset"} ->
           [steps |-> 0, pc |-> 0, cont |-> TRUE, last |-> <<>>,
            inloop |-> (e.act = "loopstart_reset")]
    [] e.act = "ostep" ->   \* opaque step: the loss was not logged, TLC infers the abstract event
           [steps |-> s.steps + 1, pc |-> e.pc, cont |-> e.cont, last |-> s.last, inloop |-> s.inloop]
    [] e.act = "save" -> s                        \* state_dict(): no effect on the controller
    [] e.act = "restore" ->                       \* a NEW controller object .load_state_dict(snapshot)
           [steps |-> s.snap.steps, pc |-> s.snap.pc, cont |-> s.snap.cont, last |-> s.snap.last,
            inloop |-> FALSE]
    [] e.act = "loopstart" -> [s EXCEPT !.inloop = TRUE]
    [] e.act = "loopexit"  -> [s EXCEPT !.inloop = FALSE]

Clause(cfg, s, e) ==
  LET x == Expected(cfg, s, e) IN
  CASE e.act = "step" /\ s.inloop /\ ~s.cont -> "loop_continued_after_stop"
    [] e.act = "ostep" /\ s.inloop /\ ~s.cont -> "loop_continued_after_stop"
    [] e.act = "ostep" /\ ~(\E a \in C!Events :
                              LET r == C!StepCtl(cfg, s, a) IN
                                r.steps = e.steps /\ r.pc = e.pc /\ r.cont = e.cont)
                                             -> "no_event_explains_step"
    [] e.act = "loopexit" /\ s.cont          -> "loop_exit_while_continual"
    [] e.act = "loopexit" /\ e.bodies > (IF cfg.max < 1 THEN 1 ELSE cfg.max) -> "loop_exceeds_budget"
    [] e.steps # x.steps -> "steps"
    [] e.pc # x.pc       -> "patience_count"
    [] e.cont # x.cont   -> "continual"
    [] OTHER -> "ok"

Logged(cfg, s, e) ==
  LET x == Expected(cfg, s, e) IN
  [steps |-> e.steps, pc |-> e.pc, cont |-> e.cont, last |-> x.last, inloop |-> x.inloop,
   snap |-> IF e.act = "save" THEN [steps |-> e.steps, pc |-> e.pc, cont |-> e.cont, last |-> s.last] ELSE s.snap]

Init ==
  /\ tid \in 1..Len(Traces)
  /\ l = 1
  /\ st = [steps |-> 0, pc |-> 0, cont |-> TRUE, last |-> <<>>, inloop |-> FALSE,
           snap |-> [steps |-> 0, pc |-> 0, cont |-> TRUE, last |-> <<>>]]
  /\ verdict = "ok"

Next ==
  LET T == Traces[tid] IN
  /\ l <= Len(T.ev)
  /\ LET e == T.ev[l]
         cl == Clause(T.cfg, st, e) IN
       /\ verdict' = IF verdict = "ok" /\ cl # "ok" THEN cl \o "@" \o ToString(l) ELSE verdict
       /\ st' = Logged(T.cfg, st, e)
       /\ (l = Len(T.ev)) => PrintT(<<"VERDICT", tid, verdict'>>)
  /\ l' = l + 1 /\ UNCHANGED tid

Spec == Init /\ [][Next]_<<tid, l, st, verdict>>

\* design properties re-evaluated along every recorded execution
StaysStoppedOnTrace ==
  [][(~st.cont /\ st'.cont) => Traces[tid].ev[l].act \in {"reset", "loopstart_reset", "restore"}]_<<tid, l, st, verdict>>
================================================================================
