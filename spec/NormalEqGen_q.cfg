SPECIFICATION Spec
CONSTANTS
  Big = FALSE
CHECK_DEADLOCK FALSE
