\* thorough, noisy correspondences: 2 289 clouds x 12 rotations x translation (1,-2,3) x scales 1, 2 x 15 noise
\* patterns = 824 040 instances
SPECIFICATION Spec
CONSTANTS
  P3 = {0, 1, 10, 11, 20, 21, 100, 101, 110, 111, 120, 121, 200, 201, 210, 211, 220, 221}
  P4 = {0, 1, 10, 11, 100, 101, 110, 111, 200, 222}
  P5 = {0, 1, 10, 11, 100, 101, 110, 111, 200, 222}
  P6 = {0, 1, 10, 11, 100, 101, 110, 111, 200, 222}
  MultiSizes = {3, 4}
  UnitKinds = {"axis", "half"}
  TransCodes = {638}
  ScaleHalves = {2, 4}
  NoiseKinds = {"one", "alt"}
INVARIANT TypeOK
INVARIANT TrueRigidReproduced
INVARIANT TrueSimReproduced
INVARIANT UniqueRigidMinimiser
INVARIANT UniqueSimMinimiser
INVARIANT CollinearTies
INVARIANT RigidFormulaIsDefinition
INVARIANT SimFormulaIsDefinition
INVARIANT SSRNonNegative
INVARIANT SimNotWorseThanRigid
INVARIANT BestBoundedByNoise
INVARIANT WholeNegationIsPessimal
INVARIANT ProperWithinOrthogonal
CHECK_DEADLOCK FALSE
