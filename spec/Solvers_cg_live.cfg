\* termination of the CG loop (weak fairness of Next) on every SPD matrix of order 1..2 with entries
\* -2..2, rhs 0, e_k, (1..1), guess none or entries -1..1
SPECIFICATION Spec
CONSTANTS
  Mode = "cg"
  Dims = {1,2}
  EMax = 2
  BMax = 1
  BUnit = TRUE
  LDims = {}
  LMax = 0
  UseX0 = TRUE
  X0Max = 1
  PrecMax = 0
  PrecFull = FALSE
  TolD = 32768
PROPERTY Terminates
CHECK_DEADLOCK FALSE
