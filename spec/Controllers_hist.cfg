\* statement-level: history kept, every history up to MaxLen over the full alphabet
SPECIFICATION Spec
CONSTANTS
  MaxStepsSet = {1,2,3,4,5,6}
  PatienceSet = {1,2,3,4}
  MaxLen = 5
  MaxResets = 1
  KeepHist = TRUE
  WithSnap = FALSE
CONSTRAINT Bound
INVARIANT TypeOK
INVARIANT ContIffNoCause
INVARIANT StepsCountCalls
INVARIANT BudgetInv
INVARIANT TrailingRun
INVARIANT LoopBounded
INVARIANT LoopExitsStopped
PROPERTY StaysStopped
PROPERTY ResetRestoresInitial
CHECK_DEADLOCK FALSE
