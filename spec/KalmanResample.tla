---------------------------- MODULE KalmanResample ----------------------------
(* PF resampling index law (pf.py: resample_particles).  Weights q_i = c[i] / RTot     *)
(* with integer c; a random number r in (0,1) selects idx(r) = min {i : cumsum_i >= r}. *)
(* TLC enumerates every weight vector of up to RN particles and checks, on the grid     *)
(* r = (2t - 1) / (2 RTot), t = 1..RTot (the midpoints, so no r is a cumulative sum):   *)
(*   Proportional   particle j is selected by exactly c[j] of the RTot grid points, i.e.*)
(*                  with probability q_j under uniform r;                               *)
(*   DocAgrees      idx(r) is the j of the documentation, cum_{j-1} <= r < cum_j;       *)
(*   NeverZero      a particle of weight 0 is never selected;  Monotone in r.           *)
EXTENDS Integers, Sequences, FiniteSets, TLC

CONSTANTS RN, RTot

K == INSTANCE Kalman WITH
       Variant <- "doc", Dims <- {}, NKs <- {}, NA <- 0, DL <- {}, NL <- 0, DL2 <- {}, NL2 <- 0,
       NC <- 0, NRs <- {}, MeanFam <- FALSE, NonLin <- FALSE, MaxSteps <- 0, NKm <- {}, Thin <- 1, Thin2 <- 1, ThinM <- 1,
       inst <- <<>>, ph <- "none", est <- <<>>, pred <- <<>>, out <- <<>>

VARIABLE c
Init == \E n \in 1..RN : c \in {w \in [1..n -> 0..RTot] : K!CumTo(w, n) = RTot}
Next == UNCHANGED c
Spec == Init /\ [][Next]_c

Grid == 1..RTot
Pick(t) == K!Idx(c, RTot, 2 * t - 1, 2 * RTot)

Proportional == \A j \in DOMAIN c : Cardinality({t \in Grid : Pick(t) = j}) = c[j]
DocAgrees    == \A t \in Grid : Pick(t) = K!IdxDoc(c, RTot, 2 * t - 1, 2 * RTot)
NeverZero    == \A t \in Grid : c[Pick(t)] > 0
Monotone     == \A t \in Grid : t < RTot => Pick(t) <= Pick(t + 1)
================================================================================
