\* quick: every pattern pair on a 2x3 . 3x2 block grid (64 x 64 pairs)
SPECIFICATION Spec
CONSTANTS
  SM = 2
  SN = 3
  SP = 2
INVARIANT K2InRange
INVARIANT HitsAreMatches
INVARIANT VisitsExactly
INVARIANT IndexConsistent
INVARIANT RunAgrees
CHECK_DEADLOCK FALSE
