-------------------------------- MODULE LieRegimes --------------------------------
(* Regime structure and first-order error model of pypose's Exp / Log on so3, se3, rxso3   *)
(* and sim3 (C01, C02).  A cell is a combination of magnitude classes of the rotation       *)
(* angle theta, the log-scale sigma and the translation, for a type and a dtype.  The       *)
(* regime selection is transcribed from the code's masks (theta > eps, |sigma| > eps in     *)
(* so3_Exp, so3_Jl and rxso3_Ws); the error model gives, per regime, the decimal exponent   *)
(* of the relative error of the translation block caused by cancellation in the closed      *)
(* forms ((1-cos t)/t^2, (e^s-1)/s, ...).  TLC enumerates every cell and checks that the     *)
(* regimes are total and exclusive and that the model meets the property's tolerance in      *)
(* every cell.  The model of the pinned code (suffix 0: (e^s-1)/s evaluated directly, no     *)
(* series regime) missed it in one band (sim3 with eps < |sigma| << 1): that was the          *)
(* design-level finding behind repair 2cfaa17 (expm1 + bivariate series below eps^(1/4)),    *)
(* and RepairCoversOldBand keeps the two models side by side.                                *)
(* Magnitudes are decimal exponents: theta ~ 10^eT; ZeroE stands for an exact zero.          *)
EXTENDS Naturals, Integers, Sequences, TLC

ZeroE == -99
Types  == {"SO3", "SE3", "RxSO3", "Sim3"}
Dtypes == {"f64", "f32"}
EpsE(dt)  == IF dt = "f64" THEN -16 ELSE -7           \* eps ~ 10^EpsE
\* tolerances of the property, in units of eps (shared with LieRegimesTrace)
TolRot(dt)   == 256                                    \* rotation and scale blocks: small multiple of eps
TolUnit(dt)  == 8                                      \* | |q| - 1 |
TolTrans(dt) == IF dt = "f64" THEN 536870912 ELSE 23171   \* 8 sqrt(eps) / eps
TolTransE(dt) == IF dt = "f64" THEN -7 ELSE -3         \* the same as a decimal exponent (rounded up)

Max2(a, b) == IF a > b THEN a ELSE b
Min2(a, b) == IF a < b THEN a ELSE b

HasT(ty) == ty \in {"SE3", "Sim3"}
HasS(ty) == ty \in {"RxSO3", "Sim3"}

\* ------------------------------------------------------------------ regimes (masks of the code)
\* gT / gS: the comparisons the code makes, theta > eps and |sigma| > eps (in the dtype); a magnitude
\* class in the decade of eps may fall on either side, all others are determined by their exponent
FlagOK(dt, e, g) == (e = ZeroE => ~g) /\ (e # ZeroE /\ e < EpsE(dt) => ~g) /\ (e # ZeroE /\ e > EpsE(dt) => g)
\* so3_Exp / so3_Jl: closed form iff theta > eps, Taylor otherwise
RotRegime(gT) == IF gT THEN "closed" ELSE "taylor"
\* eps^(1/4) ~ 1.2e-4 (f64) / 1.9e-2 (f32) lies in this decade
QuartE(dt) == IF dt = "f64" THEN -4 ELSE -2
\* sT / sS: the comparisons theta < eps^(1/4), |sigma| < eps^(1/4) of the series regime
SmallOK(dt, e, sm) == (e = ZeroE => sm) /\ (e # ZeroE /\ e < QuartE(dt) => sm) /\ (e # ZeroE /\ e > QuartE(dt) => ~sm)
\* rxso3_Ws: condition1..4, and 5 = the series regime that overrides 3 and 4 when both arguments are small
WsRegime0(gT, gS) ==
  CASE ~gS /\ ~gT -> 1
    [] ~gS /\  gT -> 2
    []  gS /\ ~gT -> 3
    []  gS /\  gT -> 4
WsRegime(gT, gS, sT, sS) == IF gS /\ sT /\ sS THEN 5 ELSE WsRegime0(gT, gS)
WsConditions(gT, gS, sT, sS) == << ~gS /\ ~gT, ~gS /\ gT, gS /\ ~gT /\ ~(sT /\ sS), gS /\ gT /\ ~(sT /\ sS), gS /\ sT /\ sS >>

\* ------------------------------------------------------------------ error model (decimal exponents)
Z(e) == IF e = ZeroE THEN -60 ELSE e                   \* an exact zero contributes nothing
Cap0(e) == Min2(e, 0)
\* se3: t = Jl(phi) tau, coef1 = (1 - cos t)/t^2 loses eps/t^2 relatively, times t in the product
ErrJl(dt, eT, gT) ==
  IF ~gT THEN EpsE(dt)
  ELSE IF 2 * eT <= EpsE(dt) THEN Max2(eT, EpsE(dt))              \* 1 - cos rounds to 0: error ~ theta / 2
  ELSE IF eT < 0 THEN Max2(EpsE(dt) - eT, EpsE(dt)) ELSE EpsE(dt)
\* sim3: t = W tau, W = A K + B K^2 + C I
ErrC0(dt, eS, gS) == IF ~gS THEN EpsE(dt)
                     ELSE IF eS < 0 THEN Cap0(EpsE(dt) - eS) ELSE EpsE(dt)     \* (e^s - 1)/s evaluated directly
ErrC(dt, eS, gS) == EpsE(dt)                                                    \* expm1(s)/s
ErrA0(dt, eT, eS, gT, gS) ==
  CASE WsRegime0(gT, gS) = 1 -> EpsE(dt)
    [] WsRegime0(gT, gS) = 2 -> ErrJl(dt, eT, gT)
    [] WsRegime0(gT, gS) = 3 -> IF eS < 0 THEN Max2(EpsE(dt) - 2 * eS + Z(eT), EpsE(dt)) ELSE EpsE(dt)
    [] WsRegime0(gT, gS) = 4 -> IF Max2(eT, eS) < 0 THEN Max2(EpsE(dt) - 2 * Max2(eT, eS) + eT, EpsE(dt)) ELSE EpsE(dt)
ErrB0(dt, eT, eS, gT, gS) ==
  CASE WsRegime0(gT, gS) \in {1, 2} -> EpsE(dt)
    [] WsRegime0(gT, gS) = 3 -> IF eS < 0 THEN Max2(EpsE(dt) - 3 * eS + 2 * Z(eT), EpsE(dt)) ELSE EpsE(dt)
    [] WsRegime0(gT, gS) = 4 -> IF Max2(eT, eS) < 0 THEN Max2(EpsE(dt) + eS - 2 * Max2(eT, eS), EpsE(dt)) ELSE EpsE(dt)
\* series regime: truncation after total degree 3, remainder ~ max(theta, sigma)^4 < eps
ErrA(dt, eT, eS, gT, gS, sT, sS) == IF WsRegime(gT, gS, sT, sS) = 5 THEN EpsE(dt) ELSE ErrA0(dt, eT, eS, gT, gS)
ErrB(dt, eT, eS, gT, gS, sT, sS) == IF WsRegime(gT, gS, sT, sS) = 5 THEN EpsE(dt) ELSE ErrB0(dt, eT, eS, gT, gS)
PredTransE0(ty, dt, eT, eS, gT, gS) ==
  CASE ty = "SE3"  -> ErrJl(dt, eT, gT)
    [] ty = "Sim3" -> Cap0(Max2(Max2(ErrA0(dt, eT, eS, gT, gS), ErrB0(dt, eT, eS, gT, gS)), ErrC0(dt, eS, gS)))
    [] OTHER       -> EpsE(dt)
PredTransE(ty, dt, eT, eS, gT, gS, sT, sS) ==
  CASE ty = "SE3"  -> ErrJl(dt, eT, gT)
    [] ty = "Sim3" -> Cap0(Max2(Max2(ErrA(dt, eT, eS, gT, gS, sT, sS), ErrB(dt, eT, eS, gT, gS, sT, sS)), ErrC(dt, eS, gS)))
    [] OTHER       -> EpsE(dt)
MeetsTolerance(ty, dt, eT, eS, gT, gS, sT, sS) == PredTransE(ty, dt, eT, eS, gT, gS, sT, sS) <= TolTransE(dt)

\* the band in which the pinned design (not only the code) missed the stated tolerance
InBand0(ty, dt, eS, gS) == ty = "Sim3" /\ gS /\ eS < 0 /\ EpsE(dt) - eS > TolTransE(dt)

\* ------------------------------------------------------------------ enumeration of all cells
Exps(dt) == {ZeroE} \cup (-30 .. 1)
VARIABLES ty, dt, eT, eS, gT, gS, sT, sS
vars == <<ty, dt, eT, eS, gT, gS, sT, sS>>
Init == /\ ty \in Types /\ dt \in Dtypes
        /\ eT \in Exps(dt) /\ gT \in BOOLEAN /\ FlagOK(dt, eT, gT) /\ sT \in BOOLEAN /\ SmallOK(dt, eT, sT)
        /\ eS \in (IF HasS(ty) THEN Exps(dt) ELSE {ZeroE}) /\ gS \in BOOLEAN /\ FlagOK(dt, eS, gS)
        /\ sS \in BOOLEAN /\ SmallOK(dt, eS, sS)
Next == UNCHANGED vars
Spec == Init /\ [][Next]_vars

RegimeTotal == LET c == WsConditions(gT, gS, sT, sS) IN
               /\ \E i \in 1..5 : c[i]
               /\ \A i, j \in 1..5 : (c[i] /\ c[j]) => i = j
               /\ c[WsRegime(gT, gS, sT, sS)]
RegimeContinuity ==      \* on both sides of the theta switch-over the se3 model is within tolerance
  /\ ErrJl(dt, EpsE(dt), FALSE) <= TolTransE(dt) /\ ErrJl(dt, EpsE(dt), TRUE) <= TolTransE(dt)
  /\ ErrJl(dt, EpsE(dt) + 1, TRUE) <= TolTransE(dt)
ModelMeetsTolerance == MeetsTolerance(ty, dt, eT, eS, gT, gS, sT, sS)
\* the pinned model was within tolerance outside the band, missed it inside, and the repaired model covers the band
OldModelOutsideBand == PredTransE0(ty, dt, eT, eS, gT, gS) <= TolTransE(dt) \/ (ty = "Sim3" /\ gS /\ eS < 0)
OldBandWasPredicted == InBand0(ty, dt, eS, gS) => PredTransE0(ty, dt, eT, eS, gT, gS) > TolTransE(dt)
RepairCoversOldBand == InBand0(ty, dt, eS, gS) => MeetsTolerance(ty, dt, eT, eS, gT, gS, sT, sS)
\* the repair never predicts worse than the pinned model
RepairNoWorse == PredTransE(ty, dt, eT, eS, gT, gS, sT, sS) <= PredTransE0(ty, dt, eT, eS, gT, gS)
================================================================================
