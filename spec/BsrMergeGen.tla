------------------------------ MODULE BsrMergeGen ------------------------------
(* spec -> code: for every pair of block patterns on the grids GShapes (codes            *)
(* 100 sm + 10 sn + sp) TLC runs the merge-join of BsrMerge and writes the compressed     *)
(* index arrays, the list of visited (k1, k2) pairs with their scatter index and the      *)
(* output block coordinates.  The harness builds real BSR / BSC tensors from exactly      *)
(* these index arrays with integer block values, evaluates                                *)
(*    C[coo[idx]] += A.values[k1] @ B.values[k2]   over the visited list                  *)
(* in integer arithmetic and demands that pypose returns exactly that matrix (and that    *)
(* it is the dense product).                                                              *)
EXTENDS Naturals, Integers, Sequences, FiniteSets, TLC, Json, IOUtils

CONSTANTS GShapes

B == INSTANCE BsrMerge WITH SM <- 0, SN <- 0, SP <- 0, pa <- {}, pb <- {}, m <- <<>>, s <- <<>>

Seq0(f) == [t \in 1..Cardinality(DOMAIN f) |-> f[t - 1]]      \* 0-based function -> sequence

RowsFor(c) ==
  LET sm == c \div 100  sn == (c \div 10) % 10  sp == c % 10 IN
  { LET lay == B!Layout(A, Bp, sm, sp)
        run == B!RunFrom([sm |-> sm, sp |-> sp], lay, B!InitLoop) IN
    [sm |-> sm, sn |-> sn, sp |-> sp,
     crow |-> Seq0(lay.crow), col |-> Seq0(lay.col), ccol |-> Seq0(lay.ccol), row |-> Seq0(lay.row),
     src |-> run.src, coo |-> run.coo] :
      A \in SUBSET ((0..(sm - 1)) \X (0..(sn - 1))), Bp \in SUBSET ((0..(sn - 1)) \X (0..(sp - 1))) }

ASSUME JsonSerialize(IOEnv.OUT_FILE, [rows |-> UNION { RowsFor(c) : c \in GShapes }])

VARIABLE x
Init == x = 0
Next == UNCHANGED x
Spec == Init /\ [][Next]_x
================================================================================
