------------------------------ MODULE LieJacTrace ------------------------------
(* Validates Jacobians recorded from the real autograd (torch.autograd.grad with unit     *)
(* cotangents, torch.autograd.functional.jacobian, pp.func.jacrev, pp.optim.functional.    *)
(* modjac) on lattice inputs against the exact dual-number Jacobian of LieJac.             *)
(* One event = one program with its inputs, forward value and one Jacobian per input.      *)
EXTENDS LieJac, Json, IOUtils

Traces == JsonDeserialize(IOEnv.TRACE_FILE)

VARIABLES tid, l, verdict

\* rows of the logged Jacobian for input k must equal the exact Jacobian in the first
\* manifold-dimension slots; for a group input the remaining slot must be zero
JacClause(e, k, J) ==
  LET n    == TanDim(e.ty, e.kinds[k], e.vals[k])
      got  == e.jac[k] IN
  IF Len(got) # Len(J) THEN "jac_rows"
  ELSE IF \E r \in 1..Len(J) : Len(got[r]) < n THEN "jac_width"        \* (a narrower row cannot be compared at all)
  ELSE IF \E r \in 1..Len(J) : \E i \in 1..n : got[r][i] # J[r][i] THEN "jacobian"
  ELSE IF e.kinds[k] = "G" /\ \E r \in 1..Len(J) : (Len(got[r]) # n + 1 \/ got[r][n + 1] # DZero) THEN "zero_slot"
  ELSE IF e.kinds[k] # "G" /\ \E r \in 1..Len(J) : Len(got[r]) # n THEN "jac_width"
  ELSE "ok"
\* the exact Jacobian is bound as a value (see the note at LieJac!Eval)
InputClause(e, k) == Only({JacClause(e, k, J) : J \in {Jacobian(e.ty, e.prog, e.kinds, e.vals, k)}})

RECURSIVE FirstBad(_, _)
FirstBad(e, k) == IF k > Len(e.vals) THEN "ok"
                  ELSE IF k \in {e.skip[i] : i \in DOMAIN e.skip} THEN FirstBad(e, k + 1)   \* a constant input: no gradient asked
                  ELSE IF Len(e.jac) < k THEN "jac_missing_in" \o ToString(k)
                  ELSE LET c == InputClause(e, k) IN
                       IF c # "ok" THEN c \o "_in" \o ToString(k) ELSE FirstBad(e, k + 1)

\* programs with a group-valued output (raw coordinates, arbitrary dense cotangents): the Jacobian of raw
\* coordinates is not defined by the property, but the slot of every group gradient beyond the manifold
\* dimension must still be exactly zero and everything finite
RECURSIVE ZeroSlotBad(_, _)
ZeroSlotBad(e, k) ==
  IF k > Len(e.vals) THEN "ok"
  ELSE LET n == TanDim(e.ty, e.kinds[k], e.vals[k]) IN
       IF Len(e.jac) < k THEN "jac_missing_in" \o ToString(k)
       ELSE IF e.kinds[k] = "G" /\ \E r \in 1..Len(e.jac[k]) : (Len(e.jac[k][r]) # n + 1 \/ e.jac[k][r][n + 1] # DZero)
       THEN "zero_slot_in" \o ToString(k)
       ELSE ZeroSlotBad(e, k + 1)

Clause(e) ==
  IF e.zero_only THEN (IF ~e.finite THEN "nonfinite" ELSE ZeroSlotBad(e, 1))
  ELSE IF ~Defined(e.ty, e.prog, BaseEnv(e.ty, e.kinds, e.vals)) THEN "program_outside_exact_fragment"
  ELSE IF ~e.finite THEN "nonfinite"
  ELSE IF e.value # Value(e.ty, e.prog, e.kinds, e.vals) THEN "value"
  ELSE FirstBad(e, 1)

\* TLC caches the values of operator arguments only in constant-level evaluation; inside actions and
\* invariants the recursive program evaluator is re-entered for every use of an argument and becomes
\* exponential in the program depth.  Events are independent of any state, so every verdict is computed
\* at constant level (in an ASSUME) and the behaviour spec is trivial.
RECURSIVE FirstFail(_, _)
FirstFail(T, i) == IF i > Len(T.ev) THEN "ok"
                   ELSE LET c == Clause(T.ev[i]) IN
                        IF c # "ok" THEN c \o "@" \o ToString(i) ELSE FirstFail(T, i + 1)
ASSUME \A t \in 1..Len(Traces) : PrintT(<<"VERDICT", t, FirstFail(Traces[t], 1)>>)

Init == tid = 0 /\ l = 0 /\ verdict = "ok"
Next == UNCHANGED <<tid, l, verdict>>
Spec == Init /\ [][Next]_<<tid, l, verdict>>
================================================================================
