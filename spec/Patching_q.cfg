\* nesting depth <= 2, 2 steps per body (faults at points 0..2), the code as written
SPECIFICATION Spec
CONSTANTS
  MaxDepth = 2
  Points = 2
  HasFinally = TRUE
INVARIANT RestoredWhenQuiescent
INVARIANT FrameRestores
INVARIANT WrappedInside
INVARIANT NoWrapperChains
INVARIANT DepthBound
INVARIANT TypeOK
CHECK_DEADLOCK FALSE
