\* quick, noisy correspondences (reflection-prone: every 3-point and planar cloud).  374 clouds x 4 rotations
\* (identity and the half turns) x translation (1,-2,3) x scale 1 x 15 integer noise patterns (one point moved by
\* +-e_k, all points moved by alternating +-e_k) = 22 440 instances
SPECIFICATION Spec
CONSTANTS
  P3 = {0, 1, 10, 11, 100, 101, 110, 111, 200, 201, 210, 211}
  P4 = {0, 100, 200, 10, 1, 110, 111, 222}
  P5 = {0, 1, 10, 11, 100, 101, 110, 111}
  P6 = {0, 1, 10, 11, 100, 101, 110, 111}
  MultiSizes = {}
  UnitKinds = {"axis"}
  TransCodes = {638}
  ScaleHalves = {2}
  NoiseKinds = {"one", "alt"}
INVARIANT TypeOK
INVARIANT TrueRigidReproduced
INVARIANT TrueSimReproduced
INVARIANT UniqueRigidMinimiser
INVARIANT UniqueSimMinimiser
INVARIANT CollinearTies
INVARIANT RigidFormulaIsDefinition
INVARIANT SimFormulaIsDefinition
INVARIANT SSRNonNegative
INVARIANT SimNotWorseThanRigid
INVARIANT BestBoundedByNoise
INVARIANT WholeNegationIsPessimal
INVARIANT ProperWithinOrthogonal
CHECK_DEADLOCK FALSE
