\* every weight vector of 1..4 particles with weights in sixteenths
SPECIFICATION Spec
CONSTANTS
  RN = 4
  RTot = 16
INVARIANT Proportional
INVARIANT DocAgrees
INVARIANT NeverZero
INVARIANT Monotone
CHECK_DEADLOCK FALSE
