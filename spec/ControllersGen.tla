---------------------------- MODULE ControllersGen ----------------------------
(* spec -> code: tabulates the transition function of Controllers over a box of      *)
(* configurations, states and abstract events and writes it as JSON; the harness      *)
(* drives the real objects along a shortest path to every reachable state, applies    *)
(* every event there, and compares with this table (one implementation test per       *)
(* transition of the specification).                                                  *)
EXTENDS Naturals, Sequences, TLC, Json, IOUtils, FiniteSets

C == INSTANCE Controllers WITH
       MaxStepsSet <- {}, PatienceSet <- {}, MaxLen <- 0, MaxResets <- 0, KeepHist <- FALSE, WithSnap <- FALSE, saved <- 0,
       c <- 0, steps <- 0, pc <- 0, cont <- TRUE, hist <- <<>>, n <- 0, resets <- 0, loop <- "idle"

CONSTANTS GMax, GPat, GLen

Cfgs   == [max : GMax, pat : GPat]
States == [steps : 0..GLen, pc : 0..GLen, cont : BOOLEAN]

SetToSeq(S) == CHOOSE f \in [1..Cardinality(S) -> S] : \A i, j \in 1..Cardinality(S) : i # j => f[i] # f[j]

Rows == { [cfg |-> cf, s |-> s, e |-> e, t |-> C!StepCtl(cf, s, e)] :
            cf \in Cfgs, s \in {x \in States : x.pc <= x.steps}, e \in C!Events }

\* the unbounded (Apalache) model ControllersInd uses the same transition function
I == INSTANCE ControllersInd WITH max <- 0, pat <- 0, steps <- 0, pc <- 0, cont <- TRUE, n <- 0, trail <- 0, caused <- FALSE
ASSUME \A r \in Rows : I!StepFn(r.cfg.max, r.cfg.pat, r.s.steps, r.s.pc, r.s.cont, r.e.dec # "big", r.e.kill)
                        = <<r.t.steps, r.t.pc, r.t.cont>>

ASSUME JsonSerialize(IOEnv.OUT_FILE, [init |-> C!InitCtl, rows |-> Rows])
ASSUME PrintT(<<"ROWS", Cardinality(Rows)>>)

VARIABLE x
Init == x = 0
Next == UNCHANGED x
Spec == Init /\ [][Next]_x
================================================================================
