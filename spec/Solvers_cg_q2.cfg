\* quick: exact CG on every SPD matrix of order 1..2, every rhs and initial guess with entries -1..1 (and none), M in {none, diag(1..2), SPD with entries -1..1}
SPECIFICATION Spec
CONSTANTS
  Mode = "cg"
  Dims = {1,2}
  EMax = 2
  BMax = 1
  BUnit = FALSE
  LDims = {}
  LMax = 0
  UseX0 = TRUE
  X0Max = 1
  PrecMax = 2
  PrecFull = TRUE
  TolD = 32768
INVARIANT ResidualIsTrue
INVARIANT IterBound
INVARIANT ZeroResidualAtN
INVARIANT ResidualOrthP
INVARIANT ReturnMeetsTol
INVARIANT ExactWhenZero
INVARIANT ZeroRhs
INVARIANT RunAgrees
CHECK_DEADLOCK FALSE
