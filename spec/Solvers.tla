-------------------------------- MODULE Solvers --------------------------------
(* The linear solvers of pypose.optim.solver over exact integers / rationals.         *)
(*                                                                                    *)
(*  Cholesky(A, b)  cholesky_ex + cholesky_solve : the solution for symmetric positive *)
(*                  definite A, an exception otherwise          -> Outcome(A, b)      *)
(*  PINV(A, b)      pinv(A) @ b : the minimum-norm least-squares solution             *)
(*                                                               -> PinvSolve(A, b)   *)
(*  LSTSQ(A, b)     lstsq(A, b).solution : a least-squares solution                   *)
(*                                                               -> IsLeastSquares    *)
(*  CG(A, b, x, M)  the conjugate-gradient loop, transcribed statement by statement   *)
(*                  over exact rationals (state machine Start / Check / Iterate /     *)
(*                  Exhaust, step function CGStep shared with the binding modules)    *)
(*                                                                                    *)
(* Matrices are tuples of rows of integers.  Rationals are <<num, den>>, den > 0,     *)
(* in lowest terms; rational vectors in the CG loop carry one common denominator      *)
(* [v |-> <<ints>>, d |-> den] (kept in lowest terms, so 32-bit TLC integers are      *)
(* enough; TLC reports an overflow as an error, never silently).  TLCEval (= identity)*)
(* only forces TLC to evaluate a constructed vector / matrix once instead of lazily   *)
(* at every use.                                                                      *)
(*                                                                                    *)
(* Mode selects which family of instances Init enumerates:                            *)
(*   "sym": every symmetric matrix of order n \in Dims with entries -EMax..EMax and   *)
(*          every right-hand side in the box  -> the Cholesky laws (no steps)         *)
(*   "ls" : every m x n matrix, 10 m + n \in LDims, entries -LMax..LMax (shape code   *)
(*          100 + 10 m + n: entries 0..LMax only)                                     *)
(*          -> the least-squares / minimum-norm laws (no steps)                       *)
(*   "cg" : every SPD matrix of the "sym" family, right-hand side, optional initial   *)
(*          guess and preconditioner -> the CG loop, step by step                     *)
EXTENDS Naturals, Integers, Sequences, FiniteSets, TLC

CONSTANTS Mode, Dims, EMax, BMax, LDims, LMax,
          BUnit,       \* TRUE: right-hand sides are only 0, the unit vectors and (1,...,1) (laws are linear in b)
          UseX0,       \* also explore explicit initial guesses in the box -X0Max..X0Max
          X0Max,
          PrecMax,     \* 0: no preconditioner; k > 0: also diagonal M with entries 1..k
          PrecFull,    \* additionally every SPD M with entries -1..1
          TolD         \* CG tolerance tol = 1 / TolD

VARIABLES ph, A, b, x0, M, cg
vars == <<ph, A, b, x0, M, cg>>

None == <<>>                      \* "argument not given"

\* ---------------------------------------------------------------- integers, fractions
Abs(x) == IF x < 0 THEN -x ELSE x
Sgn(x) == IF x < 0 THEN -1 ELSE 1
RECURSIVE GCD(_, _)
GCD(x, y) == IF y = 0 THEN x ELSE GCD(y, x % y)          \* x, y >= 0;  GCD(0, 0) = 0

RECURSIVE SumF(_, _)                                      \* f[1] + ... + f[k]
SumF(f, k) == IF k = 0 THEN 0 ELSE f[k] + SumF(f, k - 1)

F(n, d) == LET g == GCD(Abs(n), Abs(d)) IN <<(Sgn(d) * n) \div g, (Sgn(d) * d) \div g>>   \* d # 0
FAdd(p, q) == LET g == GCD(p[2], q[2]) IN F(p[1] * (q[2] \div g) + q[1] * (p[2] \div g), p[2] * (q[2] \div g))
FNeg(p)    == <<-p[1], p[2]>>
FSub(p, q) == FAdd(p, FNeg(q))
FMul(p, q) == LET g1 == GCD(Abs(p[1]), q[2])  g2 == GCD(Abs(q[1]), p[2])
                  h1 == IF g1 = 0 THEN 1 ELSE g1  h2 == IF g2 = 0 THEN 1 ELSE g2
              IN  F((p[1] \div h1) * (q[1] \div h2), (p[2] \div h2) * (q[2] \div h1))
FDiv(p, q) == FMul(p, F(q[2], q[1]))                      \* q # 0
FInt(k)    == <<k, 1>>
\* p/q < s/t for p, s >= 0 and q, t > 0, by continued fractions (no products, no overflow)
RECURSIVE LessPos(_, _, _, _)
LessPos(p, q, s, t) ==
  LET a == p \div q  c == s \div t IN
  IF a # c THEN a < c
  ELSE IF s % t = 0 THEN FALSE
  ELSE IF p % q = 0 THEN TRUE
  ELSE LessPos(t, s % t, q, p % q)
FLess(p, q) == CASE p[1] < 0 /\ q[1] >= 0 -> TRUE
                 [] p[1] >= 0 /\ q[1] < 0 -> FALSE
                 [] p[1] >= 0 -> LessPos(p[1], p[2], q[1], q[2])
                 [] OTHER     -> LessPos(-q[1], q[2], -p[1], p[2])
FSum(f, k) == LET RECURSIVE S(_)
                  S(i) == IF i = 0 THEN <<0, 1>> ELSE FAdd(f[i], S(i - 1))
              IN S(k)

\* ---------------------------------------------------------------- integer matrices
Rows(X) == Len(X)
Cols(X) == Len(X[1])
Vec(n, k)     == [1..n -> (-k)..k]
Mats(m, n, k) == [1..m -> [1..n -> (-k)..k]]
TriIdx(n, i, j) == LET r == IF i <= j THEN i ELSE j   c == IF i <= j THEN j ELSE i
                   IN  (r - 1) * n - ((r - 1) * (r - 2)) \div 2 + (c - r + 1)
SymMats(n, k) == { [i \in 1..n |-> [j \in 1..n |-> t[TriIdx(n, i, j)]]] :
                     t \in [1..((n * (n + 1)) \div 2) -> (-k)..k] }
ZeroVec(n)  == [i \in 1..n |-> 0]
IsZeroVec(v) == \A i \in DOMAIN v : v[i] = 0
Diag(d)     == TLCEval([i \in 1..Len(d) |-> TLCEval([j \in 1..Len(d) |-> IF i = j THEN d[i] ELSE 0])])
Ident(n)    == Diag([i \in 1..n |-> 1])
T(X)        == TLCEval([j \in 1..Cols(X) |-> TLCEval([i \in 1..Rows(X) |-> X[i][j]])])
Dot(u, v)   == SumF([i \in 1..Len(u) |-> u[i] * v[i]], Len(u))
MV(X, v)    == TLCEval([i \in 1..Rows(X) |-> Dot(X[i], v)])
MM(X, Y)    == TLCEval([i \in 1..Rows(X) |-> TLCEval([j \in 1..Cols(Y) |-> SumF([k \in 1..Cols(X) |-> X[i][k] * Y[k][j]], Cols(X))])])
MAdd(X, Y)  == TLCEval([i \in 1..Rows(X) |-> TLCEval([j \in 1..Cols(X) |-> X[i][j] + Y[i][j]])])
MScale(c, X) == TLCEval([i \in 1..Rows(X) |-> TLCEval([j \in 1..Cols(X) |-> c * X[i][j]])])
Trace(X)    == SumF([i \in 1..Rows(X) |-> X[i][i]], Rows(X))
IsSym(X)    == \A i, j \in 1..Rows(X) : X[i][j] = X[j][i]

DropAt(q, k) == TLCEval([i \in 1..(Len(q) - 1) |-> IF i < k THEN q[i] ELSE q[i + 1]])
Minor(X, i, j) == TLCEval([r \in 1..(Rows(X) - 1) |-> DropAt(DropAt(X, i)[r], j)])
RECURSIVE DetN(_)
DetN(X) == IF Rows(X) = 0 THEN 1
           ELSE IF Rows(X) = 1 THEN X[1][1]
           ELSE SumF([j \in 1..Rows(X) |-> (IF j % 2 = 1 THEN 1 ELSE -1) * X[1][j] * DetN(Minor(X, 1, j))], Rows(X))
\* closed forms for the orders used here (TLC evaluates them much faster than the Laplace recursion)
Det(X) == CASE Rows(X) = 0 -> 1
            [] Rows(X) = 1 -> X[1][1]
            [] Rows(X) = 2 -> X[1][1] * X[2][2] - X[1][2] * X[2][1]
            [] Rows(X) = 3 -> X[1][1] * (X[2][2] * X[3][3] - X[2][3] * X[3][2])
                            - X[1][2] * (X[2][1] * X[3][3] - X[2][3] * X[3][1])
                            + X[1][3] * (X[2][1] * X[3][2] - X[2][2] * X[3][1])
            [] OTHER -> DetN(X)
Adj(X) == TLCEval([i \in 1..Rows(X) |-> TLCEval([j \in 1..Rows(X) |->
             (IF (i + j) % 2 = 0 THEN 1 ELSE -1) * Det(Minor(X, j, i))])])
Lead(X, k)      == TLCEval([i \in 1..k |-> TLCEval([j \in 1..k |-> X[i][j]])])
LeadMinor(X, k) == CASE k = 0 -> 1
                     [] k = 1 -> X[1][1]
                     [] k = 2 -> X[1][1] * X[2][2] - X[1][2] * X[2][1]
                     [] OTHER -> Det(Lead(X, k))

\* ---------------------------------------------------------------- Cholesky: PD or raise
\* Sylvester: a symmetric matrix is positive definite iff all leading principal minors are > 0
IsPD(X) == IsSym(X) /\ \A k \in 1..Rows(X) : LeadMinor(X, k) > 0

\* the exact solution of X x = c for det X # 0 (Cramer): adj(X) c / det(X)
ExactSolve(X, c) == LET d == Det(X)  n == MV(Adj(X), c) IN TLCEval([i \in 1..Rows(X) |-> F(n[i], d)])

Outcome(X, c) == IF IsPD(X) THEN [kind |-> "Solution", x |-> ExactSolve(X, c)]
                 ELSE [kind |-> "Raise", x |-> <<>>]

\* What IEEE arithmetic decides as robustly as exact arithmetic.  Let k be the first order whose
\* leading minor is <= 0.  The pivot the factorisation tests at step k is minor_k / minor_(k-1):
\* if it is negative it is negative by at least 1/minor_(k-1), far above round-off (the earlier
\* pivots are >= 1/minor > 0 as well), so a failure report is certain; if it is exactly 0 the
\* floating-point pivot is exact only when all earlier pivots are 1 or 4 (square roots 1, 2; all
\* intermediate quantities dyadic).  Otherwise the zero pivot is a rounding tie (e.g. [[2,2],[2,2]]
\* factorises "successfully" in IEEE double) and the instance is not judged.
FirstBad(X) == CHOOSE k \in 1..Rows(X) : LeadMinor(X, k) <= 0 /\ \A h \in 1..(k - 1) : LeadMinor(X, h) > 0
ExactPivots(X, k) == \A h \in 1..(k - 1) :
                       LET p == F(LeadMinor(X, h), LeadMinor(X, h - 1)) IN p \in {<<1, 1>>, <<4, 1>>}
Class(X) == IF IsPD(X) THEN "PD"
            ELSE LET k == FirstBad(X) IN
                 IF LeadMinor(X, k) < 0 \/ ExactPivots(X, k) THEN "NotPD" ELSE "Tie"

\* a direction certifying that X is not PD: v = column k of adj(Lead(X,k)), padded with zeros;
\* v' X v = minor_k * minor_(k-1) <= 0 and v_k = minor_(k-1) > 0
Witness(X) == LET k == FirstBad(X)  a == Adj(Lead(X, k)) IN
              [i \in 1..Rows(X) |-> IF i <= k THEN a[i][k] ELSE 0]
QuadForm(X, v) == Dot(v, MV(X, v))

\* ---------------------------------------------------------------- least squares, min norm
\* e_k(B): k-th elementary symmetric function of the eigenvalues of B = sum of its k x k principal
\* minors (orders <= 3)
E1(B) == Trace(B)
E2(B) == IF Rows(B) = 2 THEN Det(B)
         ELSE (B[1][1] * B[2][2] - B[1][2] * B[2][1]) + (B[1][1] * B[3][3] - B[1][3] * B[3][1])
              + (B[2][2] * B[3][3] - B[2][3] * B[3][2])
E3(B) == Det(B)
ESym(B, k) == CASE k = 0 -> 1 [] k = 1 -> E1(B) [] k = 2 -> E2(B) [] k = 3 -> E3(B)
Gram(X) == MM(X, T(X))                               \* X X', positive semidefinite
\* rank X = rank B = the largest k with e_k(B) # 0 (B is positive semidefinite)
RankG(B) == IF Rows(B) >= 3 /\ E3(B) # 0 THEN 3 ELSE IF Rows(B) >= 2 /\ E2(B) # 0 THEN 2
            ELSE IF E1(B) # 0 THEN 1 ELSE 0
Rank(X) == RankG(Gram(X))

\* Decell's formula: with B = X X', r = rank X,
\*   pinv(X) = X' (B^(r-1) - e_1 B^(r-2) + ... + (-1)^(r-1) e_(r-1) I) / e_r
\* Pinv(X) = [num |-> integer n x m matrix, den |-> integer, rank |-> r],  pinv(X) = num / den
Pinv(X) ==
  LET B == Gram(X)  r == RankG(B)  I == Ident(Rows(X))  Xt == T(X) IN
  TLCEval([rank |-> r, den |-> ESym(B, r),
   num |-> CASE r = 0 -> MScale(0, Xt)
             [] r = 1 -> Xt
             [] r = 2 -> MM(Xt, MAdd(MScale(E1(B), I), MScale(-1, B)))
             [] r = 3 -> MM(Xt, MAdd(MAdd(MM(B, B), MScale(-E1(B), B)), MScale(E2(B), I)))])
PinvSolveWith(P, c) == LET n == MV(P.num, c) IN TLCEval([i \in 1..Len(n) |-> F(n[i], P.den)])
PinvSolve(X, c) == PinvSolveWith(Pinv(X), c)

FDot(u, x) == FSum([i \in 1..Len(u) |-> FMul(FInt(u[i]), x[i])], Len(u))    \* integer u, rational x
FMV(X, x)  == TLCEval([i \in 1..Rows(X) |-> FDot(X[i], x)])
\* x minimises |X x - c|  iff  the normal equations X'X x = X'c hold
IsLeastSquares(X, c, x) == FMV(MM(T(X), X), x) = [i \in 1..Cols(X) |-> FInt(MV(T(X), c)[i])]
\* integer null vectors with entries in -2..2 span the null space of every matrix considered here
\* (checked: NullBoxSpans), so x is the minimum-norm solution iff it is orthogonal to all of them
NullBox(X) == {v \in Vec(Cols(X), 2) : IsZeroVec(MV(X, v))}
IsMinNorm(X, x) == \A v \in NullBox(X) : FDot(v, x) = <<0, 1>>
SpansDim(S, d) ==
  CASE d = 0 -> TRUE
    [] d = 1 -> \E v \in S : ~IsZeroVec(v)
    [] d = 2 -> \E u, v \in S : Dot(u, u) * Dot(v, v) # Dot(u, v) * Dot(u, v)
    [] d = 3 -> \E u, v, w \in S : Det(<<u, v, w>>) # 0

\* ---------------------------------------------------------------- CG over exact rationals
RECURSIVE GcdSeq(_, _)
GcdSeq(v, k) == IF k = 0 THEN 0 ELSE GCD(Abs(v[k]), GcdSeq(v, k - 1))
QV(v, d) == LET g == GCD(Abs(d), GcdSeq(v, Len(v))) IN
            [v |-> TLCEval([i \in 1..Len(v) |-> (Sgn(d) * v[i]) \div g]), d |-> (Sgn(d) * d) \div g]
QInt(v)  == [v |-> v, d |-> 1]
QNeg(a)  == [v |-> TLCEval([i \in 1..Len(a.v) |-> -a.v[i]]), d |-> a.d]
QAdd(a, c) == LET g == GCD(a.d, c.d)  fa == c.d \div g  fc == a.d \div g IN
              QV([i \in 1..Len(a.v) |-> a.v[i] * fa + c.v[i] * fc], a.d * fa)
QSub(a, c) == QAdd(a, QNeg(c))
QScale(f, a) == LET g == GCD(Abs(f[1]), a.d)  h == IF g = 0 THEN 1 ELSE g IN
                QV([i \in 1..Len(a.v) |-> (f[1] \div h) * a.v[i]], f[2] * (a.d \div h))
\* a.v = ga a', c.v = gc c':  a.c = (ga/a.d) (gc/c.d) (a'.c')  -- keeps the intermediate products small
QDot(a, c) == LET ga == GcdSeq(a.v, Len(a.v))  gc == GcdSeq(c.v, Len(c.v)) IN
              IF ga = 0 \/ gc = 0 THEN <<0, 1>>
              ELSE FMul(FMul(F(ga, a.d), F(gc, c.d)),
                        <<Dot([i \in 1..Len(a.v) |-> a.v[i] \div ga], [i \in 1..Len(c.v) |-> c.v[i] \div gc]), 1>>)
QMV(X, a)  == QV(MV(X, a.v), a.d)
QIsZero(a) == IsZeroVec(a.v)
QFracs(a)  == TLCEval([i \in 1..Len(a.v) |-> F(a.v[i], a.d)])

\* norm(r) < tol * norm(b)   <=>   (r.r)/(b.b) < tol^2      (b # 0)
Small(r, bvec, told) == LET q == FDiv(QDot(r, r), F(Dot(bvec, bvec), 1)) IN LessPos(q[1], q[2], 1, told * told)

\* CG.forward up to the loop: x = zeros if not given; b = 0 returns b; r = b - A x if x.any() else b
CGStart(X, c, guess) ==
  LET n == Len(c)
      x == IF guess = None THEN QInt(ZeroVec(n)) ELSE QInt(guess) IN
  IF IsZeroVec(c)
  THEN [pc |-> "done", x |-> x, r |-> QInt(c), p |-> QInt(ZeroVec(n)), rho |-> <<0, 1>>, it |-> 0,
        ret |-> QInt(c), why |-> "b0"]
  ELSE [pc |-> "loop", x |-> x,
        r |-> IF IsZeroVec(x.v) THEN QInt(c) ELSE QSub(QInt(c), QMV(X, x)),
        p |-> QInt(ZeroVec(n)), rho |-> <<0, 1>>, it |-> 0, ret |-> None, why |-> ""]

\* one pass of `for iteration in range(maxiter)` (or the fall-through after it)
CGStep(X, c, P, told, maxiter, st) ==
  IF st.it >= maxiter THEN [st EXCEPT !.pc = "done", !.ret = st.x, !.why = "maxiter"]
  ELSE IF Small(st.r, c, told) THEN [st EXCEPT !.pc = "done", !.ret = st.x, !.why = "tol"]
  ELSE LET z     == IF P = None THEN st.r ELSE QMV(P, st.r)
           rho   == QDot(st.r, z)
           p     == IF st.it > 0 THEN QAdd(QScale(FDiv(rho, st.rho), st.p), z) ELSE z
           q     == QMV(X, p)
           alpha == FDiv(rho, QDot(p, q))
       IN  [st EXCEPT !.x = QAdd(st.x, QScale(alpha, p)), !.r = QSub(st.r, QScale(alpha, q)),
                      !.p = p, !.rho = rho, !.it = st.it + 1]

RECURSIVE CGLoop(_, _, _, _, _, _)
CGLoop(X, c, P, told, maxiter, st) ==
  IF st.pc = "done" THEN st ELSE CGLoop(X, c, P, told, maxiter, CGStep(X, c, P, told, maxiter, st))
\* the whole call as a function (used by SolversGen / SolversTrace)
CGRun(X, c, guess, P, told, maxiter) == CGLoop(X, c, P, told, maxiter, CGStart(X, c, guess))
DefaultMaxIter(n) == 10 * n

\* ---------------------------------------------------------------- the enumerating state machine
\* Instances are built in phases so that TLC spreads the work over its workers:
\*   "seed"   (Init)  the order and the diagonal (sym, cg) / the shape and the first row (ls)
\*   "matrix" (Build) the rest of the matrix        -> laws about A alone are evaluated here
\*   "posed"  (Pose)  right-hand side, guess, preconditioner -> laws about (A, b); CG starts here
Idle == [pc |-> "idle"]
OffIdx(n, i, j) == LET r == IF i < j THEN i ELSE j   c == IF i < j THEN j ELSE i
                   IN  ((r - 1) * (2 * n - r)) \div 2 + (c - r)
SymWithDiag(n, k, d) == { [i \in 1..n |-> [j \in 1..n |-> IF i = j THEN d[i] ELSE t[OffIdx(n, i, j)]]] :
                            t \in [1..((n * (n - 1)) \div 2) -> (-k)..k] }
\* a shape code s \in LDims is 10 m + n (entries -LMax..LMax) or 100 + 10 m + n (entries 0..LMax)
Ents(s) == IF s >= 100 THEN 0..LMax ELSE (-LMax)..LMax
WithFirstRow(m, n, E, r) == { [i \in 1..m |-> IF i = 1 THEN r ELSE rest[i - 1]] :
                                rest \in [1..(m - 1) -> [1..n -> E]] }
SPDMats(n, k) == {X \in SymMats(n, k) : IsPD(X)}
Precs(n) == {None}
            \cup (IF PrecMax > 0 THEN {Diag(d) : d \in [1..n -> 1..PrecMax]} ELSE {})
            \cup (IF PrecFull THEN SPDMats(n, 1) ELSE {})
\* explicit guesses: the whole box for orders <= 2; for order 3 the zero vector and the unit vectors
\* (larger guesses make the exact iterates outgrow TLC's 32-bit integers)
Units(n) == {[i \in 1..n |-> IF i = k THEN 1 ELSE 0] : k \in 0..n}
Guesses(n) == {None} \cup (IF UseX0 THEN (IF n <= 2 THEN Vec(n, X0Max) ELSE Units(n)) ELSE {})
Rhs(n) == IF BUnit THEN Units(n) \cup {[i \in 1..n |-> 1]}
          ELSE Vec(n, BMax)

Init ==
  /\ ph = "seed" /\ b = None /\ x0 = None /\ M = None /\ cg = Idle
  /\ \/ Mode = "sym" /\ \E n \in Dims : \E d \in Vec(n, EMax) : A = [n |-> n, d |-> d]
     \/ Mode = "cg"  /\ \E n \in Dims : \E d \in [1..n -> 1..EMax] : A = [n |-> n, d |-> d]
     \/ Mode = "ls"  /\ \E s \in LDims : \E r \in [1..(s % 10) -> Ents(s)] :
                           A = [m |-> (s \div 10) % 10, n |-> s % 10, lo |-> s \div 100, r |-> r]

Build ==
  /\ ph = "seed" /\ ph' = "matrix"
  /\ \/ Mode = "sym" /\ A' \in SymWithDiag(A.n, EMax, A.d)
     \/ Mode = "cg"  /\ A' \in {X \in SymWithDiag(A.n, EMax, A.d) : IsPD(X)}
     \/ Mode = "ls"  /\ A' \in WithFirstRow(A.m, A.n, Ents(100 * A.lo), A.r)
  /\ UNCHANGED <<b, x0, M, cg>>

Pose ==
  /\ ph = "matrix" /\ ph' = "posed"
  /\ b' \in Rhs(Rows(A))
  /\ IF Mode = "cg" THEN x0' \in Guesses(Rows(A)) /\ M' \in Precs(Rows(A)) ELSE UNCHANGED <<x0, M>>
  /\ UNCHANGED <<A, cg>>

Start == /\ Mode = "cg" /\ ph = "posed" /\ cg.pc = "idle"
         /\ cg' = CGStart(A, b, x0)
         /\ UNCHANGED <<ph, A, b, x0, M>>
InLoop  == Mode = "cg" /\ ph = "posed" /\ cg.pc = "loop"
Stepped == CGStep(A, b, M, TolD, DefaultMaxIter(Len(b)), cg)
Check   == InLoop /\ Stepped.why = "tol"     /\ cg' = Stepped /\ UNCHANGED <<ph, A, b, x0, M>>
Exhaust == InLoop /\ Stepped.why = "maxiter" /\ cg' = Stepped /\ UNCHANGED <<ph, A, b, x0, M>>
Iterate == InLoop /\ Stepped.pc = "loop"     /\ cg' = Stepped /\ UNCHANGED <<ph, A, b, x0, M>>

Next == Build \/ Pose \/ Start \/ Check \/ Iterate \/ Exhaust
Spec == Init /\ [][Next]_vars /\ WF_vars(Next)

\* ---------------------------------------------------------------- properties: Cholesky ("sym")
\* the solution written for a PD matrix solves the system exactly
\* (A adj(A) b = det(A) b in integers is the same statement as A x = b for x = adj(A) b / det(A);
\*  the rational form is kept for the order-2 instances, where it is cheap)
SolutionSolves == (Mode = "sym" /\ ph = "posed" /\ Det(A) # 0) =>
                    /\ MV(A, MV(Adj(A), b)) = [i \in 1..Len(b) |-> Det(A) * b[i]]
                    /\ Rows(A) <= 2 => FMV(A, ExactSolve(A, b)) = [i \in 1..Len(b) |-> FInt(b[i])]
\* the leading-minor classification agrees with the definition of positive definiteness
PDIsPositive   == (Mode = "sym" /\ ph = "matrix" /\ IsPD(A)) => \A v \in Vec(Rows(A), 2) : IsZeroVec(v) \/ QuadForm(A, v) > 0
NotPDHasWitness == (Mode = "sym" /\ ph = "matrix" /\ ~IsPD(A)) => (~IsZeroVec(Witness(A)) /\ QuadForm(A, Witness(A)) <= 0)
\* exactly one outcome is specified, and "Tie" only arises on a zero pivot (singular leading block)
ClassSound == (Mode = "sym" /\ ph = "matrix") =>
  /\ (Class(A) = "PD") = IsPD(A)
  /\ (Outcome(A, ZeroVec(Rows(A))).kind = "Solution") = IsPD(A)
  /\ Class(A) = "Tie" => LeadMinor(A, FirstBad(A)) = 0

\* ---------------------------------------------------------------- properties: PINV / LSTSQ ("ls")
\* For every right-hand side at once (both laws are linear in b), in integers:
\*   A'A pinv(A) = A'            (pinv(A) b satisfies the normal equations)
\*   v' pinv(A) = 0 for A v = 0  (pinv(A) b is orthogonal to the null space: minimum norm)
PinvNormalEq == (Mode = "ls" /\ ph = "matrix") =>
                  LET P == Pinv(A) IN MM(MM(T(A), A), P.num) = MScale(P.den, T(A)) /\ P.den > 0
PinvRowSpace == (Mode = "ls" /\ ph = "matrix") =>
                  LET P == Pinv(A) IN \A v \in NullBox(A) : IsZeroVec(MV(T(P.num), v))
NullBoxSpans == (Mode = "ls" /\ ph = "matrix") => SpansDim(NullBox(A), Cols(A) - Rank(A))
\* on full column rank the least-squares solution is unique (so LSTSQ must return PinvSolve)
FullRankUnique == (Mode = "ls" /\ ph = "matrix" /\ Rank(A) = Cols(A)) => NullBox(A) = {ZeroVec(Cols(A))}
\* the same two laws as predicates on the rational solution of one instance (A, b); these are the
\* predicates the conformance specs apply
PinvIsLeastSquares == (Mode = "ls" /\ ph = "posed") => IsLeastSquares(A, b, PinvSolve(A, b))
PinvIsMinNorm      == (Mode = "ls" /\ ph = "posed") => IsMinNorm(A, PinvSolve(A, b))
\* for square non-singular A it is the solution of the system
SquareAgrees       == (Mode = "ls" /\ ph = "posed" /\ Rows(A) = Cols(A) /\ Det(A) # 0) => PinvSolve(A, b) = ExactSolve(A, b)

\* ---------------------------------------------------------------- properties: CG ("cg")
Running == Mode = "cg" /\ ph = "posed" /\ cg.pc \in {"loop", "done"}
TrueRes(x) == QSub(QInt(b), QMV(A, x))
\* the recurrence residual is the true residual
ResidualIsTrue  == (Running /\ ~IsZeroVec(b)) => cg.r = TrueRes(cg.x)
\* finite termination: never more than n updates (so maxiter = 10 n is never the reason to stop) ...
IterBound       == Running => cg.it <= Len(b) /\ cg.why # "maxiter"
\* ... and after n updates the residual is exactly zero
ZeroResidualAtN == (Running /\ cg.it = Len(b)) => QIsZero(cg.r)
\* the new residual is orthogonal to the last search direction
ResidualOrthP   == (Running /\ cg.it > 0) => QDot(cg.r, cg.p) = <<0, 1>>
\* what is returned meets the documented bound |b - A x| <= tol |b|
ReturnMeetsTol  == (Mode = "cg" /\ cg.pc = "done" /\ ~IsZeroVec(b)) =>
                     (QIsZero(TrueRes(cg.ret)) \/ Small(TrueRes(cg.ret), b, TolD))
\* a zero residual means the exact solution adj(A) b / det(A)
ExactWhenZero   == (Mode = "cg" /\ cg.pc = "done" /\ ~IsZeroVec(b) /\ QIsZero(cg.r)) =>
                     QFracs(cg.ret) = ExactSolve(A, b)
\* b = 0 returns zero whatever the initial guess
ZeroRhs         == (Mode = "cg" /\ cg.pc = "done" /\ IsZeroVec(b)) => (QIsZero(cg.ret) /\ cg.it = 0)
RunAgrees       == (Mode = "cg" /\ cg.pc = "done") => CGRun(A, b, x0, M, TolD, DefaultMaxIter(Len(b))) = cg
Terminates      == <>(cg.pc = "done")
================================================================================
