\* thorough: every cloud of 1..4 points on the 1-D grid 0..6, every ordering (1099), every call
SPECIFICATION Spec
CONSTANTS
  Grid = {0, 1, 2, 3, 4, 5, 6}
  PD = 1
  MaxN = 4
  Ords = {1, 2, 0}
  Radii = {0, 1, 2, 3, 4, 6, 9}
  VoxSizes = {1, 2, 3, 5, 8}
  Gather = "all"
INVARIANT PermInv
INVARIANT KnnMatchesDef
INVARIANT KnnCertSound
INVARIANT KnnEquivariant
INVARIANT NbrMatchesDef
INVARIANT NbrEquivariant
INVARIANT KnnfMatchesDef
INVARIANT KnnfSelfAndOthers
INVARIANT KnnfRadiusConsistent
INVARIANT KnnfEquivariant
INVARIANT VoxelMatchesDef
INVARIANT VoxelEquivariant
INVARIANT RandomMatchesDef
CHECK_DEADLOCK FALSE
