------------------------------ MODULE AlignGen ------------------------------
(* spec -> code: for every enumerated (cloud, true transform, noise pattern) TLC tabulates the     *)
(* exact bounds of Align - N * (best candidate SSR) of the rigid problem, the numerator and         *)
(* denominator of the similarity one - together with the class, well-posedness and whether the     *)
(* best orthogonal candidate is a reflection, and writes the table as JSON.  The driver runs the    *)
(* real svdtf / svdstf on every row and compares the exact SSR of what they return (rational        *)
(* arithmetic on the returned floats) with the bound, and the returned transform with the true one  *)
(* on exact well-posed rows.                                                                        *)
EXTENDS Naturals, Integers, Sequences, FiniteSets, TLC, Json, IOUtils

CONSTANTS P3, P4, P5, P6, MultiSizes, UnitKinds, TransCodes, ScaleHalves, NoiseKinds

A == INSTANCE Align WITH
       pc <- "gen", src <- <<>>, cls <- "", X <- <<>>, noise <- <<>>, tgt <- <<>>, mom <- <<>>, sol <- <<>>

Row(x, T, nz) ==
  LET n  == Len(x)
      y  == A!Targets(T, x, nz)
      e  == A!MaxExp(y)
      ix == [i \in 1..n |-> A!IScale(A!Pow2(e), x[i])]
      iy == A!IntCloud(y, e)
      m  == A!Moments(ix, iy)
      r  == A!Ranking(m)
  IN [src |-> x, t |-> T.t, q |-> T.q, s |-> T.s, noise |-> nz, tgt |-> y, e |-> e, n |-> n,
      cls |-> A!Class(x), wellposed |-> A!WellPosed(x), exact |-> (nz = A!NoNoise(n)),
      rigidN |-> A!MinRigidNSSR(m, r), simNum |-> A!MinSimNum(m, r), nb |-> m.nb,
      amax |-> r.amax, reflprone |-> (r.argAll \cap A!RotIdx = {}), nbest |-> Cardinality(r.arg)]

\* noise patterns must match the cloud size
RowsOK == UNION { { Row(x, T, nz) : T \in A!Transforms, nz \in A!Noises(Len(x)) } : x \in A!Clouds }

ASSUME JsonSerialize(IOEnv.OUT_FILE, [rows |-> RowsOK])
ASSUME PrintT(<<"ROWS", Cardinality(RowsOK)>>)

VARIABLE z
Init == z = 0
Next == UNCHANGED z
Spec == Init /\ [][Next]_z
================================================================================
