\* thorough: every state reachable within 3 calls x every call (= all call sequences of length <= 4)
SPECIFICATION Spec
CONSTANTS
  GDepth = 3
  GTimeVals = {0, 3}
