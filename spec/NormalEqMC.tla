------------------------------- MODULE NormalEqMC -------------------------------
(* Design-level checks of NormalEq, exhaustive over small finite families.                 *)
(*                                                                                        *)
(* Mode = "shape": every model SHAPE with 1..MaxP parameters of kinds {V, A, G} (batch      *)
(*   shapes from PShapes), every frozen subset that leaves a trainable parameter, 1..MaxB   *)
(*   residual blocks (R in RDims, batch shape in BShapes) and every weight-shape class that *)
(*   broadcasts against the block.  Checked: column / row partitions, the four column       *)
(*   layouts and their projections, the split of delta, the block-diagonal weight expansion *)
(*   against an independent recursive definition of broadcasting, and for which weight      *)
(*   shapes tiling the list of matrices (the implementation's device) is the broadcast.     *)
(* Mode = "num": every small integer system (J in -1..1, m <= 3, n <= 2, integer R, SPD      *)
(*   block-diagonal W, power-of-two clamps and damping sequences): the LM matrix has the    *)
(*   closed-form diagonal, untouched off-diagonal, is symmetric, b is minus half the        *)
(*   gradient and H half the second difference of the weighted quadratic model; the GN      *)
(*   normal form is solved by delta0 whenever R = -J delta0 and a solution of the normal    *)
(*   form minimises |W(J delta + R)|^2 over the integer box.                                *)
(* Mode = "upd": update kinds on lattice elements: rotation-free retraction = translation    *)
(*   by the increment in the world frame, first-order retraction differs from addition.     *)
(* Mut # "none" plants a spec mutation to show the invariants are not vacuous.              *)
EXTENDS NormalEq

CONSTANTS Mode, MaxP, MaxB, Ty, Mut, NumBig

VARIABLES sh        \* the enumerated instance (a record; fields depend on Mode)

\* ================================================================== Mode "shape"
PKinds  == {"V", "A", "G"}
PShapes == {<<>>, <<2>>}
VDims   == {1, 3}
BShapes == {<<>>, <<2>>, <<2, 3>>, <<2, 1, 2>>}
RDims   == {1, 2}
\* weight batch shapes that broadcast against a block batch shape (all of them)
RECURSIVE WShapesOf(_)
WShapesOf(bs) == IF Len(bs) = 0 THEN {<<>>}
                 ELSE LET rest == WShapesOf(Tail(bs)) IN
                      rest \cup { <<d>> \o w : d \in {1, bs[1]}, w \in {w \in rest : Len(w) = Len(bs) - 1} }
ParamSpecs == { [kind |-> k, shape |-> s, dim |-> d, fr |-> f] :
                k \in PKinds, s \in PShapes, d \in VDims, f \in BOOLEAN }
OkParam(p) == p.kind = "V" \/ p.dim = 3         \* dim only matters for V
BlockSpecs == { [R |-> r, bshape |-> b, wshape |-> w, weighted |-> x] :
                r \in RDims, b \in BShapes, w \in UNION {WShapesOf(bb) : bb \in BShapes}, x \in BOOLEAN }
OkBlock(b) == b.wshape \in WShapesOf(b.bshape) /\ (~b.weighted => b.wshape = <<>>)

\* a concrete model record of that shape (values are placeholders: zero vectors of the right length)
ElemLen(p) == CASE p.kind = "V" -> p.dim [] p.kind = "A" -> ADim(Ty) [] p.kind = "G" -> GDim(Ty)
ModelOf(ps, bs) ==
  LET counts == [i \in 1..Len(ps) |-> Prod(ps[i].shape)]
      first  == [i \in 1..Len(ps) |-> SumN(counts, i - 1)]
      nel    == Sum(counts)
      owner  == [g \in 1..nel |-> CHOOSE i \in 1..Len(ps) : first[i] < g /\ g <= first[i] + counts[i]]
  IN [ty |-> Ty,
      kinds |-> [g \in 1..nel |-> ps[owner[g]].kind],
      vals  |-> [g \in 1..nel |-> ZeroRow(ElemLen(ps[owner[g]]))],
      params |-> [i \in 1..Len(ps) |-> [fr |-> ps[i].fr, el |-> [e \in 1..counts[i] |-> first[i] + e]]],
      blocks |-> [b \in 1..Len(bs) |-> [R |-> bs[b].R, bshape |-> bs[b].bshape,
                                        items |-> [i \in 1..Prod(bs[b].bshape) |-> [loc |-> <<>>, tgt |-> <<>>, terms |-> <<>>]]]],
      \* weight matrix number k of block b is the constant matrix with every entry 100 b + k
      wt |-> IF \A b \in 1..Len(bs) : ~bs[b].weighted THEN <<>>
             ELSE [b \in 1..Len(bs) |-> [wshape |-> bs[b].wshape,
                     mats |-> [k \in 1..Prod(bs[b].wshape) |->
                                [r \in 1..bs[b].R |-> [c \in 1..bs[b].R |-> D(100 * b + k)]]]]],
      cor |-> <<>>]

\* ---------------------------------------------------------------- shape invariants
M == sh.m
Layouts == {"tan", "emb", "tan_all", "emb_all"}
Range(s) == {s[i] : i \in 1..Len(s)}
Increasing(s) == \A i \in 1..(Len(s) - 1) : s[i] < s[i + 1]

\* tangent columns of the trainable elements are consecutive intervals covering 1..NCols in order
ColumnPartition ==
  Mode = "shape" =>
    LET c == Columns(M)  o == Offsets(M) IN
    /\ Len(c) > 0
    /\ o[1] = 0
    /\ \A i \in 1..(Len(c) - 1) : o[i + 1] = o[i] + TDim(M, c[i])
    /\ o[Len(c)] + TDim(M, c[Len(c)]) = NCols(M)
    /\ \A i \in 1..Len(c) : \E p \in 1..Len(M.params) : ~M.params[p].fr /\ c[i] \in Range(M.params[p].el)
    /\ Increasing(c)                                         \* named_parameters order, row-major elements
\* splitting a vector over the elements and concatenating gives the vector back; frozen elements get zero
SplitIsPartition ==
  Mode = "shape" =>
    LET n == NCols(M)  d == [i \in 1..n |-> D(i)]  c == Columns(M)  es == Elems(M, TRUE) IN
    /\ Cat([i \in 1..Len(c) |-> DeltaOf(M, d, c[i])]) = d
    /\ \A i \in 1..Len(es) : es[i].fr => DeltaOf(M, d, es[i].g) = VZero(TDim(M, es[i].g))
\* every layout keeps exactly the tangent coordinates, in order; what it drops is the padding slot of
\* each group element (emb) and every column of a frozen element (_all)
LayoutProjection ==
  Mode = "shape" =>
    \A lay \in Layouts :
      LET k == Keep(M, lay)  w == Width(M, lay)  es == Elems(M, LayoutAll(lay))
          nG == Cardinality({i \in 1..Len(es) : M.kinds[es[i].g] = "G" /\ ~es[i].fr})
          frw == Sum([i \in 1..Len(es) |-> IF es[i].fr THEN ElemWidth(M, es[i].g, lay) ELSE 0]) IN
      /\ Len(k) = NCols(M) /\ Increasing(k) /\ \A i \in 1..Len(k) : k[i] \in 1..w
      /\ Cardinality(Dropped(M, lay)) = w - NCols(M)
      /\ w - NCols(M) = (IF LayoutEmb(lay) THEN nG ELSE 0) + frw
      /\ (lay = "tan" => k = [i \in 1..NCols(M) |-> i])
\* rows: blocks in output order, items row-major, R rows each
RowPartition ==
  Mode = "shape" =>
    /\ NRows(M) = Sum([b \in 1..Len(M.blocks) |-> Prod(M.blocks[b].bshape) * M.blocks[b].R])
    /\ Len(Items(M)) = Sum([b \in 1..Len(M.blocks) |-> Prod(M.blocks[b].bshape)])

\* independent definition of broadcasting: expand along the leading axis, recursively
RECURSIVE Rep(_, _)
Rep(s, n) == IF n = 0 THEN <<>> ELSE s \o Rep(s, n - 1)
RECURSIVE Expand(_, _, _)
Expand(bshape, wshape, mats) ==
  IF Len(bshape) = 0 THEN mats
  ELSE IF Len(wshape) < Len(bshape) THEN Rep(Expand(Tail(bshape), wshape, mats), bshape[1])
  ELSE IF wshape[1] = 1 THEN Rep(Expand(Tail(bshape), Tail(wshape), mats), bshape[1])
  ELSE LET inner == Prod(Tail(wshape)) IN
       Cat([k \in 1..bshape[1] |-> Expand(Tail(bshape), Tail(wshape), Slice(mats, (k - 1) * inner, inner))])
WeightExpansion ==
  (Mode = "shape" /\ HasWeight(M)) =>
    /\ WeightOK(M)
    /\ \A b \in 1..Len(M.blocks) :
         ItemWeights(M.blocks[b], M.wt[b]) = Expand(M.blocks[b].bshape, M.wt[b].wshape, M.wt[b].mats)
    /\ LET W == FullWeight(M)  ws == WeightMats(M)  ds == ItemDims(M) IN
       /\ Len(W) = NRows(M) /\ \A r \in 1..Len(W) : Len(W[r]) = NRows(M)
       /\ \A i \in 1..Len(ws) : \A r, c \in 1..ds[i] : W[SumN(ds, i - 1) + r][SumN(ds, i - 1) + c] = ws[i][r][c]
       /\ \A i, j \in 1..Len(ws) : i # j => \A r \in 1..ds[i], c \in 1..ds[j] : W[SumN(ds, i - 1) + r][SumN(ds, j - 1) + c] = DZero
\* Tiling the list of weight matrices is the broadcast for the documented example shapes (suffixes of
\* the batch shape, also with leading extents 1) ...
Squeezed(w) == IF Len(w) > 0 /\ w[1] = 1 THEN Tail(w) ELSE w
RECURSIVE SqueezeLead(_)
SqueezeLead(w) == IF Len(w) > 0 /\ w[1] = 1 THEN SqueezeLead(Tail(w)) ELSE w
TilingOnDocumentedShapes ==
  (Mode = "shape" /\ HasWeight(M)) =>
    \A b \in 1..Len(M.blocks) :
      IsSuffix(M.blocks[b].bshape, SqueezeLead(M.wt[b].wshape)) =>
        \A i \in 0..(Prod(M.blocks[b].bshape) - 1) :
          TileIndex(M.wt[b].wshape, i) = WIndex(M.blocks[b].bshape, M.wt[b].wshape, i)
\* ... but NOT for every broadcastable shape (an extent 1 in the middle): this invariant is expected to
\* be violated, NormalEqMC_wit_tiling.cfg exhibits the witness
TilingOnEveryBroadcastableShape ==
  (Mode = "shape" /\ HasWeight(M)) =>
    \A b \in 1..Len(M.blocks) :
      \A i \in 0..(Prod(M.blocks[b].bshape) - 1) :
        TileIndex(M.wt[b].wshape, i) = WIndex(M.blocks[b].bshape, M.wt[b].wshape, i)

\* ================================================================== Mode "num"
Ints(lo, hi) == {D(k) : k \in lo..hi}
Mats(mm, nn) == [1..mm -> [1..nn -> Ints(-1, 1)]]
W2 == { << <<D(1), D(0)>>, <<D(0), D(1)>> >>, << <<D(2), D(1)>>, <<D(1), D(2)>> >>, << <<D(1), D(0)>>, <<D(0), D(4)>> >> }
W3 == { Ident(3),
        << <<D(1), D(0), D(0)>>, <<D(0), D(2), D(0)>>, <<D(0), D(0), D(4)>> >>,
        << <<D(2), D(1), D(0)>>, <<D(1), D(2), D(0)>>, <<D(0), D(0), D(1)>> >>,
        << <<D(1), D(0), D(0)>>, <<D(0), D(2), D(-1)>>, <<D(0), D(-1), D(1)>> >>,
        << <<D(2), D(1), D(0)>>, <<D(1), D(2), D(1)>>, <<D(0), D(1), D(2)>> >> }
Clamps == { <<<<1, 2>>, D(64)>>, <<D(2), D(64)>>, <<<<1, 2>>, D(2)>>, <<D(1), D(1)>> }     \* <<min, max>>
LamSeqs == { <<D(1)>>, <<DHalf, D(2)>>, <<<<1, 2>>, <<1, 2>>, D(1)>>, <<D(0), D(3)>> }
RVals == IF NumBig THEN {-1, 0, 2} ELSE {-1, 2}

NumFull == Mode = "num" /\ sh.ph = "full"
L == [R |-> sh.R, J |-> sh.J, W |-> IF sh.hasW THEN sh.W ELSE Ident(Len(sh.J)), hasW |-> sh.hasW]
NN == Len(sh.J[1])
Box(n) == [1..n -> Ints(-1, 1)]
Quad(W, v) == Dot(v, MatVec(W, v))
\* the weighted quadratic model  f(d) = (R + J d)' W (R + J d)
Fq(d) == Quad(L.W, VAdd(L.R, MatVec(L.J, d)))
Unit(n, i) == [j \in 1..n |-> IF i = j THEN DOne ELSE DZero]

\* the (possibly mutated) LM matrix of trial k
MutInit(lo, hi) == IF Mut = "rhs_unweighted" THEN [A |-> LMInit(L, lo, hi).A, b |-> VNeg(MatVec(Transpose(L.J), L.R))]
                   ELSE IF Mut = "clamp_after_damping" THEN [A |-> Hessian(L).H, b |-> Hessian(L).b]
                   ELSE LMInit(L, lo, hi)
MutDamp(A, lam) == IF Mut = "lambda_identity" THEN MatAdd(A, MatScale(lam, Ident(Len(A)))) ELSE Damp(A, lam)
RECURSIVE MutTrial(_, _, _)
MutTrial(A0, lams, k) == IF k = 0 THEN A0 ELSE MutDamp(MutTrial(A0, lams, k - 1), lams[k])
TrialMatrix(lo, hi, lams, k) ==
  IF Mut = "clamp_after_damping" THEN ClampDiag(MutTrial(MutInit(lo, hi).A, lams, k), lo, hi)
  ELSE MutTrial(MutInit(lo, hi).A, lams, k)

LMDiagonalClosedForm ==
  NumFull =>
    \A H \in {Hessian(L).H} :
      \A cl \in Clamps : \A lams \in LamSeqs : \A k \in 0..Len(lams) :
        \A A \in {TrialMatrix(cl[1], cl[2], lams, k)} :
          \A i, j \in 1..NN :
            A[i][j] = IF i = j THEN DMul(DClamp(H[i][i], cl[1], cl[2]), Growth(lams, k)) ELSE H[i][j]
LMSymmetric ==
  NumFull => \A cl \in Clamps : \A lams \in LamSeqs : IsSymmetric(TrialMatrix(cl[1], cl[2], lams, Len(lams)))
\* b = -J'WR is minus half the gradient, H = J'WJ half the second difference of the quadratic model
LMIsNewtonOnQuadraticModel ==
  NumFull =>
    \A h \in {MutInit(<<1, 20>>, D(1000000))} : \A H \in {Hessian(L).H} : \A Z \in {VZero(NN)} :      \* clamps inactive
    /\ \A i \in 1..NN : DMul(D(4), h.b[i]) = DSub(Fq(VNeg(Unit(NN, i))), Fq(Unit(NN, i)))
    /\ \A i, j \in 1..NN : i # j =>
         DMul(D(2), H[i][j]) = DSub(DAdd(Fq(VAdd(Unit(NN, i), Unit(NN, j))), Fq(Z)), DAdd(Fq(Unit(NN, i)), Fq(Unit(NN, j))))
    /\ \A i \in 1..NN : DMul(D(2), H[i][i]) = DSub(DAdd(Fq(Unit(NN, i)), Fq(VNeg(Unit(NN, i)))), DMul(D(2), Fq(Z)))
    /\ \A i \in 1..NN : H[i][i] # DZero => h.A[i][i] = H[i][i]
\* the clamped diagonal lies in [min, max]; damping with lambda >= 0 does not decrease it
LMClampBounds ==
  NumFull => \A cl \in Clamps : \A A \in {LMInit(L, cl[1], cl[2]).A} :
                    \A i \in 1..NN : ~DLess(A[i][i], cl[1]) /\ ~DLess(cl[2], A[i][i])
\* Gauss-Newton: least-squares solutions of (W J) d = -(W R)
GNs == GNSystem(L)
GNn == NormalForm(GNs.A, GNs.b)
Res2(d) == LET r == VSub(MatVec(GNs.A, d), GNs.b) IN Dot(r, r)
GNConsistentSystemIsSolved ==       \* if R = -J d0 then d0 satisfies the normal form, with zero residual
  NumFull =>
    \A d0 \in Box(NN) :
      LET L0 == [L EXCEPT !.R = VNeg(MatVec(L.J, d0))]
          g0 == GNSystem(L0)  n0 == NormalForm(g0.A, g0.b) IN
      MatVec(n0.N, d0) = n0.g /\ MatVec(g0.A, d0) = g0.b /\ MatVec(L.J, d0) = VNeg(L0.R)
GNNormalFormMinimises ==            \* a solution of the normal form is a least-squares solution
  NumFull =>
    \A nf \in {GNn} : \A gs \in {GNs} :
      LET Rs(d) == LET r == VSub(MatVec(gs.A, d), gs.b) IN Dot(r, r) IN
      \A d \in Box(NN) : MatVec(nf.N, d) = nf.g => \A rd \in {Rs(d)} : \A e \in Box(NN) : ~DLess(Rs(e), rd)
\* without weight and clamps and with zero damping LM solves the GN normal form
LMUndampedIsGN ==
  (NumFull /\ ~sh.hasW) =>
    \A h \in {LMInit(L, <<1, 20>>, D(1000000))} : \A nf \in {GNn} :
      (\A i \in 1..NN : nf.N[i][i] # DZero) => (LMTrial(h.A, <<DZero>>, 1) = nf.N /\ h.b = nf.g)

\* ================================================================== Mode "upd"
E == INSTANCE LieExact
UElems == { E!Encode(Ty, E!Elem(t, q, s)) :
            t \in (IF Ty \in {"SE3", "Sim3"} THEN {<<D(0), D(0), D(0)>>, <<D(1), D(-2), D(3)>>} ELSE {<<D(0), D(0), D(0)>>}),
            q \in E!Units24,
            s \in (IF Ty \in {"RxSO3", "Sim3"} THEN {DOne, D(2), DHalf} ELSE {DOne}) }
Taus == {<<D(0), D(0), D(0)>>, <<D(2), D(-1), D(4)>>, <<D(-3), D(0), D(1)>>}
TanOf(tau, phi, sg) == CASE Ty = "SO3" -> phi [] Ty = "SE3" -> tau \o phi [] Ty = "RxSO3" -> phi \o <<sg>> [] Ty = "Sim3" -> tau \o phi \o <<sg>>
Z3d == <<DZero, DZero, DZero>>
RetractionIsLeftTranslation ==
  Mode = "upd" =>
    \A tau \in Taus :
      LET d == TanOf(tau, Z3d, DZero)  X == PlainG(Ty, sh.x)  Y == Retract(Ty, sh.x, d) IN
      /\ RotationFree(Ty, d)
      /\ E!SameElem(Y, E!Mul(E!Elem(IF Ty \in {"SE3", "Sim3"} THEN tau ELSE Z3d, E!QOne, DOne), X))
      /\ Y.q = X.q /\ Y.s = X.s
\* to first order the retraction is NOT the addition of the padded increment to the embedding
\* coordinates (for increments with a rotation part), and it is not the right multiplication
FirstOrderIsNotAddition ==
  Mode = "upd" =>
    \A i \in 1..ADim(Ty) :
      LET a == [j \in 1..ADim(Ty) |-> IF i = j THEN DOne ELSE DZero]
          f == FirstOrder(Ty, sh.x, a)
          pad == a \o <<DZero>>
          isRot == (Ty = "SO3" /\ i <= 3) \/ (Ty = "SE3" /\ i >= 4) \/ (Ty = "RxSO3" /\ i <= 3) \/ (Ty = "Sim3" /\ i \in 4..6) IN
      /\ Len(f) = GDim(Ty)
      /\ isRot => f # pad
      \* the quaternion part of the first-order change is tangent to the unit sphere
      /\ LET qo == IF Ty \in {"SE3", "Sim3"} THEN 3 ELSE 0 IN
         Dot(Slice(f, qo, 4), Slice(sh.x, qo, 4)) = DZero

\* ================================================================== behaviour
DefaultParams == << [kind |-> "G", shape |-> <<>>, dim |-> 3, fr |-> FALSE] >>
DefaultBlocks == << [R |-> 2, bshape |-> <<2>>, wshape |-> <<>>, weighted |-> FALSE] >>
\* column facts depend only on the parameters, row / weight facts only on the blocks: the two families
\* are enumerated separately (every parameter tuple with one fixed block, every block tuple with one
\* fixed parameter)
ShapeInit ==
  \/ \E np \in 1..MaxP : \E ps \in [1..np -> {p \in ParamSpecs : OkParam(p)}] :
       /\ \E i \in 1..np : ~ps[i].fr
       /\ sh = [m |-> ModelOf(ps, DefaultBlocks)]
  \/ \E nb \in 1..MaxB : \E bs \in [1..nb -> {b \in BlockSpecs : OkBlock(b)}] :
       sh = [m |-> ModelOf(DefaultParams, bs)]
\* instances are built in two steps so that TLC spreads the work over its workers
NumDims == IF NumBig THEN {<<2, 1>>, <<2, 2>>, <<3, 1>>, <<3, 2>>} ELSE {<<2, 1>>, <<2, 2>>, <<3, 1>>}
NumInit == \E d \in NumDims : \E W \in (IF d[1] = 2 THEN W2 ELSE W3) \cup {<<>>} :
             \E r1 \in RVals : sh = [ph |-> "seed", mm |-> d[1], nn |-> d[2], W |-> W, r1 |-> r1]
NumBuild == /\ Mode = "num" /\ sh.ph = "seed"
            /\ \E J \in Mats(sh.mm, sh.nn) : \E Rv \in [1..sh.mm -> {D(k) : k \in RVals}] :
                 /\ Rv[1] = D(sh.r1)
                 /\ sh' = [ph |-> "full", J |-> J, R |-> Rv, W |-> sh.W, hasW |-> sh.W # <<>>]
UpdInit == \E x \in UElems : sh = [x |-> x]
Init == CASE Mode = "shape" -> ShapeInit [] Mode = "num" -> NumInit [] Mode = "upd" -> UpdInit
Next == NumBuild
Spec == Init /\ [][Next]_sh
================================================================================
