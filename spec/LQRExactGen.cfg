SPECIFICATION Spec
