\* quick: stamps in 0..8, lists of <= 3 stamps, thresholds 1..3; pairing n <= 10; errors 0..3 x <= 4; 576 rotation pairs
SPECIFICATION Spec
CONSTANTS
  TMax = 8
  N1Max = 3
  N2Max = 3
  DSet = {1,2,3}
  PairN = {1,2,3,4,5,6,7,8,9,10}
  PairD = {1,2,3,4}
  StepSet = {1,2,3}
  DistNMax = 5
  EMax = 3
  ENMax = 4
INVARIANT MatchSound
INVARIANT MatchComplete
INVARIANT MatchMonotone
INVARIANT MatchInjective
INVARIANT MatchNoTies
INVARIANT MatchSymmetric
INVARIANT FramePairsAll
INVARIANT FramePairsStride
INVARIANT FramePairsInRange
INVARIANT DistStride
INVARIANT DistAll
INVARIANT StatsOrdering
INVARIANT StatsZero
INVARIANT GeoTable
INVARIANT GeoCount
CHECK_DEADLOCK FALSE
