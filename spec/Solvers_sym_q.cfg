\* sym3
SPECIFICATION Spec
CONSTANTS
  Mode = "sym"
  Dims = {1,2,3}
  EMax = 2
  BMax = 1
  BUnit = TRUE
  LDims = {}
  LMax = 0
  UseX0 = FALSE
  X0Max = 0
  PrecMax = 0
  PrecFull = FALSE
  TolD = 1
INVARIANT SolutionSolves
INVARIANT PDIsPositive
INVARIANT NotPDHasWitness
INVARIANT ClassSound
CHECK_DEADLOCK FALSE
