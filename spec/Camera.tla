-------------------------------- MODULE Camera --------------------------------
(* Pinhole camera helpers of pypose.function.geometry over exact rationals:            *)
(*   cart2homo, homo2cart, point2pixel, pixel2point, reprojerr.                         *)
(* Numbers are reduced fractions <<num, den>>, den > 0.  Intrinsics are the pinhole      *)
(* parameters K = <<fx, fy, cx, cy>> (zero skew, last row 0 0 1 -- the form of every     *)
(* documented example; pixel2point reads only these four entries).  Extrinsics are an    *)
(* SE3 element <<q2, t>>: q2 = the unit quaternion (x, y, z, w) DOUBLED, taken from the   *)
(* 24 Hurwitz units (their rotations are signed permutation matrices, exact in floating   *)
(* point), t an integer translation; <<>> stands for extrinsics=None.                     *)
(*                                                                                      *)
(* One action per public call; the state keeps what was passed and what came back, and    *)
(* the invariants are the statement: point2pixel / pixel2point are mutually inverse given  *)
(* depth, reprojerr vanishes exactly on the pixels point2pixel produces, and               *)
(* homo2cart(cart2homo(p)) = p.                                                           *)
EXTENDS Naturals, Integers, Sequences, FiniteSets, TLC

CONSTANTS CoordMag,   \* magnitudes of the integer coordinates of world points (both signs explored)
          FocalQ,     \* magnitudes of focal lengths, in quarters (both signs are explored)
          CenterQ,    \* principal point coordinates, in quarters
          Trans,      \* indices into Translations
          Deltas      \* pixel perturbations (integers, both signs explored) for reprojerr

VARIABLES world,  \* the 3-D point handed to point2pixel / reprojerr (integers)
          cam,    \* [K, ext]
          stage,  \* which call was made last
          pix,    \* pixel returned by point2pixel (or chosen, for the pixel-first direction)
          depth,  \* depth handed to pixel2point
          back,   \* point returned by pixel2point
          err     \* [d, none, sum, norm2] of the last reprojerr call

vars == <<world, cam, stage, pix, depth, back, err>>

\* ------------------------------------------------------------------ rationals
Abs(x) == IF x < 0 THEN -x ELSE x
RECURSIVE GCD(_, _)
GCD(a, b) == IF b = 0 THEN a ELSE GCD(b, a % b)
QN(n, d) == LET s == IF d < 0 THEN -1 ELSE 1            \* normalise, d # 0
                g == GCD(Abs(n), Abs(d))
            IN <<(s * n) \div g, (s * d) \div g>>
QI(i) == <<i, 1>>
QAdd(a, b) == QN(a[1] * b[2] + b[1] * a[2], a[2] * b[2])
QSub(a, b) == QN(a[1] * b[2] - b[1] * a[2], a[2] * b[2])
QMul(a, b) == QN(a[1] * b[1], a[2] * b[2])
QDiv(a, b) == QN(a[1] * b[2], a[2] * b[1])               \* b # 0
QZero == <<0, 1>>
QVec(v) == [c \in DOMAIN v |-> QI(v[c])]

\* ------------------------------------------------------------------ SE3 on the Hurwitz lattice
Cross(a, b) == <<a[2] * b[3] - a[3] * b[2], a[3] * b[1] - a[1] * b[3], a[1] * b[2] - a[2] * b[1]>>
\* v' = v + 2w(u x v) + 2u x (u x v) with u = U/2, w = W/2:  2v' = 2v + W (U x v) + U x (U x v)
Rot2(q2, v) == LET U == <<q2[1], q2[2], q2[3]>>
                   c1 == Cross(U, v)
                   c2 == Cross(U, c1)
               IN [c \in 1..3 |-> 2 * v[c] + q2[4] * c1[c] + c2[c]]       \* = 2 v'
Rot(q2, v) == LET d == Rot2(q2, v) IN [c \in 1..3 |-> d[c] \div 2]
Act(ext, v) == IF ext = <<>> THEN v
               ELSE LET r == Rot(ext[1], v) IN [c \in 1..3 |-> r[c] + ext[2][c]]

Hurwitz2 == {q \in [1..4 -> {-2, 0, 2}] : Cardinality({c \in 1..4 : q[c] # 0}) = 1}
              \cup [1..4 -> {-1, 1}]

\* ------------------------------------------------------------------ the functions
Cart2Homo(p) == p \o <<QI(1)>>
Homo2Cart(h) == [c \in 1..(Len(h) - 1) |-> QDiv(h[c], h[Len(h)])]      \* last entry # 0

\* point2pixel(points, intrinsics, extrinsics) = homo2cart(K (T p))
Project(p, K, ext) ==
  LET pc == Act(ext, p)
      h  == <<QAdd(QMul(K[1], QI(pc[1])), QMul(K[3], QI(pc[3]))),
              QAdd(QMul(K[2], QI(pc[2])), QMul(K[4], QI(pc[3]))),
              QI(pc[3])>>
  IN Homo2Cart(h)

\* pixel2point(pixels, depth, intrinsics)
BackProject(px, z, K) ==
  <<QDiv(QMul(QSub(px[1], K[3]), z), K[1]), QDiv(QMul(QSub(px[2], K[4]), z), K[2]), z>>

\* reprojerr(points, pixels, K, T, reduction): 'none' -> vector, 'sum' -> sum of the two
\* components (as the code and the word "summed" say), 'norm' -> Euclidean norm (squared here)
ReprojNone(p, px, K, ext) == LET q == Project(p, K, ext) IN <<QSub(q[1], px[1]), QSub(q[2], px[2])>>
ReprojSum(p, px, K, ext)  == LET e == ReprojNone(p, px, K, ext) IN QAdd(e[1], e[2])
ReprojNorm2(p, px, K, ext) == LET e == ReprojNone(p, px, K, ext) IN QAdd(QMul(e[1], e[1]), QMul(e[2], e[2]))

\* ------------------------------------------------------------------ state machine
Signed(S) == S \cup {-x : x \in S}
Coords == Signed(CoordMag)
Anchor == CHOOSE w \in [1..3 -> Coords] : w[3] # 0      \* the pixel-first direction ignores `world`
Translations == <<<<0, 0, 0>>, <<1, -2, 3>>, <<-3, 1, 2>>>>
Exts == {<<>>} \cup {<<q, Translations[i]>> : q \in Hurwitz2, i \in Trans}
Ks == {<<QN(fx, 4), QN(fy, 4), QN(cx, 4), QN(cy, 4)>> :
         fx \in Signed(FocalQ), fy \in Signed(FocalQ), cx \in CenterQ, cy \in CenterQ}
None == <<>>

Init ==
  /\ world \in [1..3 -> Coords]
  /\ cam \in [K : Ks, ext : Exts]
  /\ Act(cam.ext, world)[3] # 0              \* the depth in the camera frame is non-zero
  /\ stage = "start" /\ pix = None /\ depth = None /\ back = None /\ err = None

Point2Pixel ==
  /\ stage = "start"
  /\ pix' = Project(world, cam.K, cam.ext)
  /\ stage' = "projected"
  /\ UNCHANGED <<world, cam, depth, back, err>>

Pixel2Point ==                              \* with the depth of the point in the camera frame
  /\ stage = "projected"
  /\ depth' = QI(Act(cam.ext, world)[3])
  /\ back' = BackProject(pix, depth', cam.K)
  /\ stage' = "backprojected"
  /\ UNCHANGED <<world, cam, pix, err>>

ReprojErr == \E du \in Signed(Deltas) \cup {0}, dv \in Signed(Deltas) \cup {0} :
  /\ stage = "projected"
  /\ LET px == <<QAdd(pix[1], QI(du)), QAdd(pix[2], QI(dv))>> IN
       err' = [d |-> <<du, dv>>,
               none |-> ReprojNone(world, px, cam.K, cam.ext),
               sum |-> ReprojSum(world, px, cam.K, cam.ext),
               norm2 |-> ReprojNorm2(world, px, cam.K, cam.ext)]
  /\ stage' = "reprojected"
  /\ UNCHANGED <<world, cam, pix, depth, back>>

\* the other direction: start from a pixel (a quarter-pixel lattice point) and a depth,
\* back-project, and project the result with the same intrinsics (camera frame)
PixelFirst == \E u \in Signed(CenterQ \cup FocalQ), v \in Signed(CenterQ), z \in Signed(FocalQ) :
  /\ stage = "start" /\ cam.ext = <<>> /\ world = Anchor
  /\ pix' = <<QN(u, 4), QN(v, 4)>>
  /\ depth' = QN(z, 2)
  /\ back' = BackProject(pix', depth', cam.K)
  /\ stage' = "pixelfirst"
  /\ UNCHANGED <<world, cam, err>>

Next == Point2Pixel \/ Pixel2Point \/ ReprojErr \/ PixelFirst
Spec == Init /\ [][Next]_vars

\* ------------------------------------------------------------------ properties
\* Project on a rational camera-frame point (needed for the pixel-first direction)
ProjectQ(pq, K) == <<QAdd(QDiv(QMul(K[1], pq[1]), pq[3]), K[3]), QAdd(QDiv(QMul(K[2], pq[2]), pq[3]), K[4])>>

RotExact ==       \* Hurwitz rotations map integer vectors to integer vectors, isometrically
  cam.ext # <<>> =>
    LET d == Rot2(cam.ext[1], world)
        r == Rot(cam.ext[1], world)
    IN /\ \A c \in 1..3 : d[c] % 2 = 0
       /\ r[1] * r[1] + r[2] * r[2] + r[3] * r[3] = world[1] * world[1] + world[2] * world[2] + world[3] * world[3]

ProjectIsProjectQ ==
  stage = "projected" => pix = ProjectQ(QVec(Act(cam.ext, world)), cam.K)

\* pixel2point(point2pixel(p), z_p) = p (in the camera frame)
BackOfProject == stage = "backprojected" => back = QVec(Act(cam.ext, world))

\* point2pixel(pixel2point(px, z)) = px
ProjectOfBack == stage = "pixelfirst" => ProjectQ(back, cam.K) = pix /\ back[3] = depth

\* reprojerr is zero exactly for the pixels produced by point2pixel
ReprojZeroExactly ==
  stage = "reprojected" =>
    /\ (err.d = <<0, 0>>) <=> (err.none = <<QZero, QZero>>)
    /\ (err.d = <<0, 0>>) <=> (err.norm2 = QZero)
    /\ (err.d = <<0, 0>>) => (err.sum = QZero)
    /\ err.none = <<QI(-err.d[1]), QI(-err.d[2])>>
    /\ err.sum = QI(-(err.d[1] + err.d[2]))
    /\ err.norm2 = QI(err.d[1] * err.d[1] + err.d[2] * err.d[2])

\* homo2cart(cart2homo(p)) = p, also after scaling the homogeneous vector
HomoCart ==
  LET p == QVec(world) IN
    /\ Homo2Cart(Cart2Homo(p)) = p
    /\ \A s \in Signed(FocalQ) : Homo2Cart([c \in 1..4 |-> QMul(QN(s, 4), Cart2Homo(p)[c])]) = p
================================================================================
