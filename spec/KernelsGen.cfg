\* shapes 10 d + P; rho' = k/6 in {1/3, 1, 5/2}; rho'' = (k-5)/5 in {-2/5, 0, 1/5, 3} for k in {3, 5, 6, 20};
\* R entries in {-2, 0, 1}, J entries in {-1, 2}; Huber delta = k/3, x = (k/3)^2
SPECIFICATION Spec
CONSTANTS
  GShapeCodes = {11, 21, 12, 22}
  GRho1Sixths = {2, 6, 15}
  GRho2Fifths = {3, 5, 6, 20}
  GOffset = 5
  GHuberThirds = {1, 2, 3, 7}
  GHuberRoots = 24
