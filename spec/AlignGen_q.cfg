\* quick table: 3-point sets over 8 points, 4-point sets (planar and not) over the cube corners + (2,0,0);
\* identity / half turns / one 120-degree family; scales 1, 2; exact + one-point + alternating noise
SPECIFICATION Spec
CONSTANTS
  P3 = {0, 1, 10, 100, 110, 111, 200, 211}
  P4 = {0, 1, 10, 11, 100, 110, 111, 200}
  P5 = {}
  P6 = {0, 1, 10, 11, 100, 101, 110, 111}
  MultiSizes = {}
  UnitKinds = {"axis"}
  TransCodes = {638}
  ScaleHalves = {2, 4}
  NoiseKinds = {"none", "alt"}
