\* termination of the loop for every pattern pair on a 2x2 . 2x2 grid
SPECIFICATION Spec
CONSTANTS
  SM = 2
  SN = 2
  SP = 2
PROPERTY Terminates
CHECK_DEADLOCK FALSE
