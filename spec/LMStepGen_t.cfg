\* thorough (1): every call script for reject 0..4, three strategies, every strategy state at entry
SPECIFICATION Spec
CONSTANTS
  GStrats = {"Constant", "Adaptive", "TrustRegion"}
  GRejects = {0, 1, 2, 3, 4}
  GHyper = "quick"
