\* all histories up to length 12 (history folded away; implementation-shaped state only)
SPECIFICATION Spec
CONSTANTS
  MaxStepsSet = {1,2,3,4,5,6}
  PatienceSet = {1,2,3,4}
  MaxLen = 12
  MaxResets = 2
  KeepHist = FALSE
  WithSnap = TRUE
CONSTRAINT Bound
INVARIANT TypeOK
INVARIANT StepsCountCalls
INVARIANT BudgetInv
INVARIANT LoopBounded
INVARIANT LoopExitsStopped
PROPERTY StaysStopped
PROPERTY ResetRestoresInitial
PROPERTY RestoreRestoresSaved
CHECK_DEADLOCK FALSE
