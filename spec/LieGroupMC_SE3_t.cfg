SPECIFICATION Spec
CONSTANTS
  Ty = "SE3"
  TBox = 2
  SBox = 1
  TDen = 1
  Deep = TRUE
CONSTRAINT InBox
VIEW View
INVARIANT ValidElem
INVARIANT Homomorphism
INVARIANT BlocksAgree
INVARIANT InverseTwoSided
INVARIANT IdentityNeutral
INVARIANT ActIsMatrix
INVARIANT ActComposes
INVARIANT Associative
INVARIANT RotationOrthogonal
INVARIANT AdjIsGenerator
INVARIANT AdjInverse
INVARIANT AdjTIsAdjOfInv
INVARIANT AdjComposes
INVARIANT AdjExpIdentity
CHECK_DEADLOCK FALSE
