\* statement level: the call history is kept; every call sequence of length <= 6 over the reduced alphabet
\* (one data point; reset/systime/set_refpoint(t) values {0,3}; 4 NLS set_refpoint argument patterns)
SPECIFICATION Spec
CONSTANTS
  Classes = {"LTI", "LTV", "NLS"}
  TimeVals = {0, 3}
  MaxLen = 6
  KeepHist = TRUE
  Rich = FALSE
  ProgIds = {1}
  AliasRefTime = FALSE
CONSTRAINT Bound
INVARIANT TypeOK
INVARIANT TimeIsFold
INVARIANT OutputsAtPreIncrement
INVARIANT RefIsArgsOrRecent
INVARIANT LinAtRef
PROPERTY ForwardByOne
PROPERTY SettersSet
PROPERTY OthersKeepTime
PROPERTY RefOnlyBySetRefpoint
CHECK_DEADLOCK FALSE
