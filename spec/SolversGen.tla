------------------------------ MODULE SolversGen ------------------------------
(* spec -> code: TLC enumerates the instance families of Solvers and writes, as JSON,   *)
(* the outcome the specification expects of the real solvers:                           *)
(*   sym : every symmetric matrix of order n \in GDims, entries -GEMax..GEMax:          *)
(*         class "PD" | "NotPD" | "Tie" and, for PD, adj(A) b / det(A) as fractions     *)
(*         for every b \in GRhs(n)          (Cholesky: Solution / Raise)                *)
(*   ls  : every m x n matrix of the shape codes GLDims, entries -1..1 (or 0..1):       *)
(*         rank and the minimum-norm least-squares solution pinv(A) b as fractions      *)
(*         (PINV must return it; LSTSQ must return it when rank = n)                    *)
(*   cg  : every SPD matrix of the sym family, b \in GRhs(n), guess / preconditioner    *)
(*         from small menus: the exact solution and the number of iterations exact CG   *)
(*         needs (the real CG, given maxiter = that number, must already meet tol)      *)
(* The harness runs the real code on every row and compares in integer arithmetic.      *)
EXTENDS Naturals, Integers, Sequences, FiniteSets, TLC, Json, IOUtils

CONSTANTS GDims, GEMax, GLDims, GTolD

S == INSTANCE Solvers WITH
       Mode <- "gen", Dims <- {}, EMax <- 0, BMax <- 0, BUnit <- FALSE, LDims <- {}, LMax <- 1,
       UseX0 <- FALSE, X0Max <- 0, PrecMax <- 0, PrecFull <- FALSE, TolD <- GTolD,
       ph <- "gen", A <- <<>>, b <- <<>>, x0 <- <<>>, M <- <<>>, cg <- [pc |-> "idle"]

\* right-hand sides (entries within -2..2; none is zero)
GRhs(n) == { [i \in 1..n |-> 1], [i \in 1..n |-> IF i % 2 = 1 THEN 1 ELSE -1],
             [i \in 1..n |-> IF i = 1 THEN 1 ELSE 0], [i \in 1..n |-> IF i = n THEN 2 ELSE i - 2] }

SymRows == { [A |-> X, cls |-> S!Class(X),
              sols |-> IF S!IsPD(X) THEN { [b |-> c, x |-> S!ExactSolve(X, c)] : c \in GRhs(Len(X)) } ELSE {}] :
               X \in UNION { S!SymMats(n, GEMax) : n \in GDims } }

LsMats(s) == [1..((s \div 10) % 10) -> [1..(s % 10) -> S!Ents(s)]]
LsRows == { [A |-> X, rank |-> S!Rank(X),
             sols |-> { [b |-> c, x |-> S!PinvSolve(X, c)] : c \in GRhs(Len(X)) }] :
              X \in UNION { LsMats(s) : s \in GLDims } }

\* guesses / preconditioners small enough for exact CG in 32-bit integers (see Solvers.tla)
GGuess(n) == {S!None, [i \in 1..n |-> IF i = 1 THEN 1 ELSE 0]} \cup (IF n <= 2 THEN {[i \in 1..n |-> IF i = 1 THEN 1 ELSE -1]} ELSE {})
GPrec(n)  == {S!None} \cup (IF n = 2 THEN {S!Diag(<<1, 2>>), <<<<2, 1>>, <<1, 1>>>>} ELSE {})
CgRhs(n) == { [i \in 1..n |-> 1], [i \in 1..n |-> IF i % 2 = 1 THEN 1 ELSE -1],
              [i \in 1..n |-> IF i = 1 THEN 1 ELSE 0], [i \in 1..n |-> IF i = 1 THEN 1 ELSE IF i = n THEN -1 ELSE 0],
              [i \in 1..n |-> 0] }
CgRowsFor(X) ==
  { LET run == S!CGRun(X, c, g, P, GTolD, S!DefaultMaxIter(Len(X))) IN
    [A |-> X, b |-> c, x0 |-> g, M |-> P, iters |-> run.it, x |-> S!ExactSolve(X, c)] :
      c \in CgRhs(Len(X)), g \in GGuess(Len(X)), P \in GPrec(Len(X)) }
CgRows == UNION { CgRowsFor(X) : X \in UNION { S!SPDMats(n, GEMax) : n \in GDims } }

ASSUME JsonSerialize(IOEnv.OUT_FILE \o ".sym.json", [rows |-> SymRows])
ASSUME JsonSerialize(IOEnv.OUT_FILE \o ".ls.json", [rows |-> LsRows])
ASSUME JsonSerialize(IOEnv.OUT_FILE \o ".cg.json", [rows |-> CgRows])

VARIABLE x
Init == x = 0
Next == UNCHANGED x
Spec == Init /\ [][Next]_x
================================================================================
