\* thorough: one-row instances up to d = 3 / P = 3 with R in -3..3, J in -1..1; two-row batches (d = 1, P <= 2)
\* over R in {0, 2, -2}, J in {1, -1};
\* ShapeCodes = 100 N + 10 d + P; rho' = k/4 in {0, 1/4, 1, 9/4, 4, 25/4}; sqrt(1 + 2 c rho''/rho') = k/2
\* in {3/2, 2, 5/2, 3, 5}; Huber delta = k/2, inputs x = (k/2)^2, k in 0..30
SPECIFICATION Spec
CONSTANTS
  ShapeCodes = {111, 121, 112, 122, 131, 113, 211, 212}
  RMax = 3
  JMax = 1
  RSmall = {0, 2}
  JSmall = {1}
  Rho1Quarters = {0, 1, 4, 9, 16, 25}
  SqrtHalves = {3, 4, 5, 6, 10}
  HuberDeltaHalves = {1, 2, 3, 4, 5, 6, 9}
  HuberRoots = 30
INVARIANT TypeOK
INVARIANT GradientIdentity
INVARIANT TriggsHessian
INVARIANT TriggsElsewhereFast
INVARIANT FastGaussNewton
INVARIANT AlphaIsRoot
INVARIANT ZeroResidualFixed
INVARIANT HuberRejectsNegative
INVARIANT HuberTwoPiece
INVARIANT HuberZeroAtZero
INVARIANT HuberValueContinuous
INVARIANT HuberSlopeContinuous
INVARIANT HuberSecant
INVARIANT HuberNonDecreasing
INVARIANT HuberBelowIdentity
CHECK_DEADLOCK FALSE
