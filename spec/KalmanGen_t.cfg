\* spec -> code table, thorough tier: n+k in 1..6, denser sample, re-seeded runs of up to 50 steps
SPECIFICATION Spec
CONSTANTS
  GDims = {11, 21, 12, 22}
  GNKs = {1, 2, 3, 4, 5, 6}
  GNA = 1
  GDL = {1, 2}
  GNL = 1
  GDL2 = {2, 3}
  GNL2 = 2
  GNC = 1
  GNRs = {1, 2, 3}
  GCoarse = 8
  GThin2 = 5
  GStride = 14
  GStrideM = 2
  GStrideN = 20
  GRunLen = 50
  GRunStride = 150
