\* thorough, exact correspondences.  3-point clouds (with repeats) over {0,1,2}^3, 4-point clouds (with repeats) and
\* 5/6-point sets over the cube corners + (2,0,0) + (2,2,2): 4 794 clouds x 12 rotations x translations (1,-2,3),
\* (0,0,0) x scales 1/2, 1, 2 = 345 168 instances
SPECIFICATION Spec
CONSTANTS
  P3 = {0, 1, 2, 10, 11, 12, 20, 21, 22, 100, 101, 102, 110, 111, 112, 120, 121, 122, 200, 201, 202, 210, 211, 212, 220, 221, 222}
  P4 = {0, 1, 10, 11, 100, 101, 110, 111, 200, 222}
  P5 = {0, 1, 10, 11, 100, 101, 110, 111, 200, 222}
  P6 = {0, 1, 10, 11, 100, 101, 110, 111, 200, 222}
  MultiSizes = {3, 4}
  UnitKinds = {"axis", "half"}
  TransCodes = {638, 555}
  ScaleHalves = {1, 2, 4}
  NoiseKinds = {"none"}
INVARIANT TypeOK
INVARIANT TrueRigidReproduced
INVARIANT TrueSimReproduced
INVARIANT UniqueRigidMinimiser
INVARIANT UniqueSimMinimiser
INVARIANT CollinearTies
INVARIANT RigidFormulaIsDefinition
INVARIANT SimFormulaIsDefinition
INVARIANT SSRNonNegative
INVARIANT SimNotWorseThanRigid
INVARIANT BestBoundedByNoise
INVARIANT WholeNegationIsPessimal
INVARIANT ProperWithinOrthogonal
CHECK_DEADLOCK FALSE
