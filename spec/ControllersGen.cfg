SPECIFICATION Spec
CONSTANTS
  GMax = {1,2,3,4,5,6}
  GPat = {1,2,3,4}
  GLen = 12
