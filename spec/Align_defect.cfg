\* the design of the unrepaired svdtf (negate the whole matrix when det = -1) must be REFUTED by TLC:
\* 3-point clouds, identity and half turns, alternating noise; the driver requires the counterexample
SPECIFICATION Spec
CONSTANTS
  P3 = {0, 1, 10, 100, 110, 111}
  P4 = {}
  P5 = {}
  P6 = {}
  MultiSizes = {}
  UnitKinds = {"axis"}
  TransCodes = {638}
  ScaleHalves = {2}
  NoiseKinds = {"none", "alt"}
INVARIANT TypeOK
INVARIANT NegationRepairIsOptimal
CHECK_DEADLOCK FALSE
