------------------------------ MODULE Broadcast ------------------------------
(* Batch (lshape) broadcasting of LieTensor operations, the result-type table of the    *)
(* operations, and the table of shape-only torch functions that keep the ltype.         *)
(*                                                                                      *)
(* An lshape is a sequence of extents (the shape of a LieTensor without its last        *)
(* dimension).  Bcast(s1, s2) is written from PyTorch's documented rule, NOT from       *)
(* pypose's broadcast_inputs (flatten / expand / reshape):                              *)
(*    "iterating over the dimension sizes, starting at the trailing dimension, the      *)
(*     sizes must be equal, one of them is 1, or one of them does not exist";           *)
(*     the result has the rank of the longer shape; a size-1 (or missing) dimension     *)
(*     takes the size of the other operand -- which may be 0.                           *)
(* The laws TLC checks tie three independent formulations together: the trailing        *)
(* iteration (TorchOK), the left-padded elementwise join (Bcast), and the order         *)
(* theoretic one (Bcast is the least common expansion w.r.t. Tensor.expand).            *)
(*                                                                                      *)
(* Multi-indices are 0-based sequences.  IdxMap(s, o, I) is the multi-index of the      *)
(* operand item (operand lshape s) that takes part in output item I (output lshape o).  *)
(* Flat / Unflat are the row-major numbering used by reshape(-1, d) / view(o + (d,)).   *)
EXTENDS Naturals, Integers, Sequences, FiniteSets, TLC

CONSTANTS MaxRank,     \* largest batch rank explored
          Extents,     \* extents explored (the property: {0,1,2,3})
          Triples      \* TRUE: also enumerate a third shape (associativity)

VARIABLES a, b, c      \* the enumerated shapes (c = <<>> unless Triples)

Err == <<-1>>           \* Bcast of a pair torch refuses (a sequence, so that TLC can compare it with shapes)

Shapes == UNION { [1..n -> Extents] : n \in 0..MaxRank }

Max2(x, y) == IF x > y THEN x ELSE y
Min2(x, y) == IF x < y THEN x ELSE y

\* ------------------------------------------------------------------ the torch rule
Compat(x, y) == x = y \/ x = 1 \/ y = 1
Join(x, y)   == IF x = 1 THEN y ELSE x              \* only used when Compat(x, y)

\* (A) trailing iteration, exactly as documented
TorchOK(s1, s2) ==
  \A k \in 1..Min2(Len(s1), Len(s2)) : Compat(s1[Len(s1) + 1 - k], s2[Len(s2) + 1 - k])

\* (B) left-pad with ones, join elementwise
Pad(s, n) == TLCEval([i \in 1..n |-> IF i <= n - Len(s) THEN 1 ELSE s[i - (n - Len(s))]])
Bcast(s1, s2) ==
  LET n  == Max2(Len(s1), Len(s2))
      p1 == Pad(s1, n)
      p2 == Pad(s2, n) IN
  IF \A i \in 1..n : Compat(p1[i], p2[i])
  THEN TLCEval([i \in 1..n |-> Join(p1[i], p2[i])])
  ELSE Err

\* (C) Tensor.expand: new leading dimensions may be added, a size-1 dimension may take any size
Expands(s, o) ==
  /\ Len(s) <= Len(o)
  /\ \A i \in 1..Len(s) : s[i] = o[i + (Len(o) - Len(s))] \/ s[i] = 1

\* ------------------------------------------------------------------ items
RECURSIVE NumelFrom(_, _)
NumelFrom(s, i) == IF i > Len(s) THEN 1 ELSE s[i] * NumelFrom(s, i + 1)
Numel(s) == NumelFrom(s, 1)                         \* Numel(<<>>) = 1: a single item

RECURSIVE MaxIn(_, _)
MaxIn(s, i) == IF i > Len(s) THEN 0 ELSE Max2(s[i], MaxIn(s, i + 1))
Indices(s) == { I \in [1..Len(s) -> 0..MaxIn(s, 1)] : \A i \in 1..Len(s) : I[i] < s[i] }

\* operand multi-index taking part in output item I
IdxMap(s, o, I) ==
  TLCEval([i \in 1..Len(s) |-> IF s[i] = 1 THEN 0 ELSE I[i + (Len(o) - Len(s))]])

\* row-major numbering (0-based)
RECURSIVE FlatFrom(_, _, _, _)
FlatFrom(s, I, i, acc) == IF i > Len(s) THEN acc ELSE FlatFrom(s, I, i + 1, acc * s[i] + I[i])
Flat(s, I) == FlatFrom(s, I, 1, 0)
Unflat(s, k) ==
  TLCEval([i \in 1..Len(s) |-> (k \div NumelFrom(s, i + 1)) % s[i]])

\* what the implementation's scheme computes:  expand both operands to the output lshape,
\* reshape(-1, d) (row k = item Unflat(o, k) of the expanded operand), apply the kernel row by
\* row, view(o + (d,)) (row k becomes item Unflat(o, k)); the scalar batch <<>> is run as o = <<1>>.
ImplShape(o)      == IF o = <<>> THEN <<1>> ELSE o
ImplRowOf(o, I)   == Flat(ImplShape(o), IF o = <<>> THEN <<0>> ELSE I)
ImplSel(s, o, I)  ==               \* operand item in the row that ends up at output item I
  LET io == ImplShape(o)
      J  == Unflat(io, ImplRowOf(o, I)) IN
  IdxMap(s, io, J)

\* ------------------------------------------------------------------ result types
Groups == {"SO3", "SE3", "RxSO3", "Sim3"}
Algs   == {"so3", "se3", "rxso3", "sim3"}
Ltypes == Groups \cup Algs
AlgOf(G) == CASE G = "SO3" -> "so3" [] G = "SE3" -> "se3" [] G = "RxSO3" -> "rxso3" [] G = "Sim3" -> "sim3"
GroupOf(g) == CASE g = "so3" -> "SO3" [] g = "se3" -> "SE3" [] g = "rxso3" -> "RxSO3" [] g = "sim3" -> "Sim3"
Dim(lt) == CASE lt = "SO3" -> 4 [] lt = "SE3" -> 7 [] lt = "RxSO3" -> 5 [] lt = "Sim3" -> 8
             [] lt = "so3" -> 3 [] lt = "se3" -> 6 [] lt = "rxso3" -> 4 [] lt = "sim3" -> 7

BinOps == {"mul", "act3", "act4", "adj", "adjT", "retr", "add", "jinvp"}
UnOps  == {"inv", "exp", "log", "matrix", "rotation", "translation", "scale"}

\* documented result of op applied to a first operand of ltype lt: [lt |-> ltype or "Tensor", tail |-> trailing dims]
Res(op, lt) ==
  CASE op \in {"mul", "retr", "add"}   -> [lt |-> lt, tail |-> <<Dim(lt)>>]
    [] op = "act3"                     -> [lt |-> "Tensor", tail |-> <<3>>]
    [] op = "act4"                     -> [lt |-> "Tensor", tail |-> <<4>>]
    [] op \in {"adj", "adjT", "jinvp"} -> [lt |-> AlgOf(lt), tail |-> <<Dim(AlgOf(lt))>>]
    [] op = "inv"                      -> [lt |-> lt, tail |-> <<Dim(lt)>>]
    [] op = "exp"                      -> [lt |-> GroupOf(lt), tail |-> <<Dim(GroupOf(lt))>>]
    [] op = "log"                      -> [lt |-> AlgOf(lt), tail |-> <<Dim(AlgOf(lt))>>]
    [] op = "matrix"                   -> [lt |-> "Tensor",
                                           tail |-> IF lt \in {"SO3", "so3"} THEN <<3, 3>> ELSE <<4, 4>>]
    [] op = "rotation"                 -> [lt |-> "SO3", tail |-> <<4>>]
    [] op = "translation"              -> [lt |-> "Tensor", tail |-> <<3>>]
    [] op = "scale"                    -> [lt |-> "Tensor", tail |-> <<1>>]

\* first-operand ltypes on which the operation is defined
DomOf(op) == CASE op \in BinOps -> Groups
               [] op = "exp"    -> Algs
               [] op = "log"    -> Groups
               [] OTHER         -> Ltypes

\* ------------------------------------------------------------------ shape-only functions
\* torch functions / Tensor methods documented to keep the ltype when the last dimension is kept
Handled ==
  { "__getitem__", "__setitem__", "cpu", "cuda", "float", "double", "to", "detach", "view", "view_as",
    "squeeze", "unsqueeze", "cat", "stack", "split", "hsplit", "dsplit", "vsplit", "tensor_split",
    "chunk", "concat", "column_stack", "dstack", "vstack", "hstack", "index_select", "masked_select",
    "movedim", "moveaxis", "narrow", "permute", "reshape", "row_stack", "scatter", "scatter_add",
    "clone", "swapaxes", "swapdims", "take", "take_along_dim", "tile", "copy", "transpose", "unbind",
    "gather", "repeat", "expand", "expand_as", "index_copy", "index_copy_", "select",
    "select_scatter", "index_put", "index_put_", "copy_",
    \* ltype propagation outside __torch_function__
    "new_empty", "Parameter", "deepcopy", "lview" }

\* a shape-only function is judged when it is documented as handled (here or by the library's own list)
\* and the call kept the last dimension
Judged(fn, inlib, lastdim, lt) == (fn \in Handled \/ inlib) /\ lastdim = Dim(lt)

\* ------------------------------------------------------------------ enumeration
Init == a \in Shapes /\ b \in Shapes /\ c \in (IF Triples THEN Shapes ELSE {<<>>})
Next == UNCHANGED <<a, b, c>>
Spec == Init /\ [][Next]_<<a, b, c>>

B == Bcast(a, b)

\* ------------------------------------------------------------------ laws
DefinedIffTorch == (B # Err) <=> TorchOK(a, b)
Symmetric       == Bcast(a, b) = Bcast(b, a)
Idempotent      == Bcast(a, a) = a
UnitEmpty       == Bcast(<<>>, a) = a /\ Bcast(a, <<>>) = a
Closed          == B # Err => B \in Shapes /\ Len(B) = Max2(Len(a), Len(b))
Absorbs         == B # Err => Bcast(B, a) = B /\ Bcast(B, b) = B
\* order-theoretic characterisation: defined iff a common expansion exists, and then the least one
LeastExpansion  ==
  /\ (B # Err) <=> \E o \in Shapes : Expands(a, o) /\ Expands(b, o)
  /\ B # Err => /\ Expands(a, B) /\ Expands(b, B)
                /\ \A o \in Shapes : Expands(a, o) /\ Expands(b, o) => Expands(B, o)
ZeroExtent      == B # Err => ((Numel(B) = 0) <=> (Numel(a) = 0 \/ Numel(b) = 0))
ScalarBatch     == a = <<>> /\ b = <<>> => B = <<>> /\ Numel(B) = 1 /\ Indices(B) = {<<>>}

\* the index map lands inside the operand, and uses every operand item equally often
IndexMapTotal ==
  B # Err => \A I \in Indices(B) : IdxMap(a, B, I) \in Indices(a) /\ IdxMap(b, B, I) \in Indices(b)
IndexMapBalanced ==
  B # Err /\ Numel(B) > 0 =>
    \A J \in Indices(a) : Cardinality({I \in Indices(B) : IdxMap(a, B, I) = J}) * Numel(a) = Numel(B)
IndexMapIdentity == \A I \in Indices(a) : IdxMap(a, a, I) = I
\* row-major numbering is a bijection Indices(s) <-> 0..Numel(s)-1
FlatBijective ==
  /\ \A I \in Indices(a) : Flat(a, I) \in 0..(Numel(a) - 1) /\ Unflat(a, Flat(a, I)) = I
  /\ Cardinality(Indices(a)) = Numel(a)
\* the implementation scheme (expand, flatten, kernel per row, unflatten) realises the index map
SchemeIsIndexMap ==
  B # Err => \A I \in Indices(B) : ImplSel(a, B, I) = IdxMap(a, B, I) /\ ImplSel(b, B, I) = IdxMap(b, B, I)

Associative ==
  LET l == IF B = Err THEN Err ELSE Bcast(B, c)
      r == IF Bcast(b, c) = Err THEN Err ELSE Bcast(a, Bcast(b, c)) IN
  l = r

\* the type table is closed and consistent
TypeTable ==
  /\ \A op \in BinOps \cup UnOps : \A lt \in DomOf(op) :
       LET r == Res(op, lt) IN
       /\ r.lt \in Ltypes \cup {"Tensor"}
       /\ r.lt \in Ltypes => r.tail = <<Dim(r.lt)>>
  /\ \A G \in Groups : GroupOf(AlgOf(G)) = G /\ Res("exp", Res("log", G).lt).lt = G
  /\ \A G \in Groups : Dim(G) = Dim(AlgOf(G)) + 1
  /\ \A G \in Groups : Res("mul", G).lt = G /\ Res("inv", G).lt = G
================================================================================
