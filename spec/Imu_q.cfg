\* quick: every chunking (composition) of every stream length F <= 8, x rank x reset flag x known/integrated rotation
SPECIFICATION Spec
CONSTANTS
  MaxF = 8
  MaxB = 2
  RotLeft = FALSE
  CovLeft = FALSE
  InitOnLeft = TRUE
  GravPost = TRUE
  KeepHist = TRUE
INVARIANT TypeOK
INVARIANT BufferIsFold
INVARIANT BufferCovIsFold
INVARIANT OutputIsFold
INVARIANT OutputCovIsFold
INVARIANT ScanLength
INVARIANT ScanSound
INVARIANT HistIsChunking
CHECK_DEADLOCK FALSE
