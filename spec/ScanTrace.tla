------------------------------- MODULE ScanTrace -------------------------------
(* Validates recorded executions of pypose.cumops/cumprod/cummul (and the in-place     *)
(* variants) run over the interval monoid.  The observation point is the monoid         *)
(* product itself (the `ops` callback, or `@` / `*` of an instrumented tensor class):   *)
(* one "round" event per invocation with the operand rows it received.  The expected    *)
(* array contents come from Scan!Closed, the closed form that TLC proved (config        *)
(* Scan_q/Scan_t) to be an invariant of the round-by-round design for every L.          *)
EXTENDS Naturals, Integers, Sequences, TLC, Json, IOUtils

Traces == JsonDeserialize(IOEnv.TRACE_FILE)

S == INSTANCE Scan WITH MaxL <- 0, L <- 0, v <- <<>>, s <- 0, rounds <- 0

VARIABLES tid, l, st, verdict
\* st = [s |-> next effective stride, r |-> effective rounds seen]

\* operands the product must receive in row i (array position s+i) of the round with stride s
Earlier(i, s) == S!Closed(i, s)
Later(i, s)   == S!Closed(i + s, s)

\* What is judged in a round is what makes ANY scan schedule correct: every product combines two
\* adjacent intervals of the same lane in the documented order.  Whether the rounds follow the doubling
\* schedule of Scan (stride, row count, operand rows given by Scan!Closed) is recorded as st.doubling and
\* reported by the harness as an observation, not as a violation: a different correct schedule
\* (e.g. a work-efficient scan) is a legal refactoring.
RoundClause(cfg, s, e) ==
  IF e.rows = 0 THEN "ok"
  ELSE CASE ~e.lanes                -> "lanes_mixed"
         [] cfg.order = "right" /\ ~e.asc  -> "operand_order"
         [] cfg.order = "left"  /\ ~e.desc -> "operand_order"
         [] OTHER -> "ok"

FollowsDoubling(cfg, s, e) ==
  IF e.rows = 0 THEN e.stride >= cfg.L
  ELSE /\ s.s < cfg.L /\ e.stride = s.s /\ e.rows = cfg.L - s.s
       /\ (cfg.order = "right" => (e.p0 = Earlier(1, s.s) /\ e.q0 = Later(1, s.s) /\
                                    e.p1 = Earlier(cfg.L - s.s, s.s) /\ e.q1 = Later(cfg.L - s.s, s.s)))
       /\ (cfg.order = "left"  => (e.q0 = Earlier(1, s.s) /\ e.p0 = Later(1, s.s) /\
                                    e.q1 = Earlier(cfg.L - s.s, s.s) /\ e.p1 = Later(cfg.L - s.s, s.s)))

DoneClause(cfg, s, e) ==
  CASE s.doubling /\ s.s < cfg.L                  -> "missing_round"
    [] s.doubling /\ s.r # S!CeilLog2(cfg.L)      -> "round_count"
    [] e.first # <<1, 1>>           -> "fold_first"
    [] e.last # <<1, cfg.L>>        -> "fold_last"
    [] e.probe # <<1, e.probe_i>>   -> "fold_probe"
    [] ~e.allfold                   -> "fold"
    [] cfg.inplace /\ ~e.aliased    -> "inplace_not_aliased"
    [] cfg.inplace /\ ~e.input_is_result -> "inplace_input_not_overwritten"
    [] ~cfg.inplace /\ e.aliased    -> "outofplace_aliased"
    [] ~cfg.inplace /\ ~e.untouched -> "outofplace_input_mutated"
    [] OTHER -> "ok"

\* cumprod / cummul on lattice LieTensors: the harness compares with the sequential fold computed
\* item by item with the library's own product (exact on the lattice) and logs the outcome.
LieClause(cfg, e) ==
  CASE ~e.equal_fold                -> "lie_fold"
    [] ~e.ltype_kept                -> "lie_ltype"
    [] cfg.inplace /\ ~e.aliased    -> "inplace_not_aliased"
    [] cfg.inplace /\ ~e.input_is_result -> "inplace_input_not_overwritten"
    [] ~cfg.inplace /\ e.aliased    -> "outofplace_aliased"
    [] ~cfg.inplace /\ ~e.untouched -> "outofplace_input_mutated"
    [] OTHER -> "ok"

Clause(cfg, s, e) ==
  CASE e.act = "round" -> RoundClause(cfg, s, e)
    [] e.act = "done"  -> DoneClause(cfg, s, e)
    [] e.act = "liedone" -> LieClause(cfg, e)
    [] e.act = "raise" -> "raised"
    [] OTHER -> "unknown_event"

NextSt(cfg, s, e) ==
  IF e.act = "round"
  THEN [s |-> IF e.rows > 0 THEN 2 * e.stride ELSE s.s, r |-> IF e.rows > 0 THEN s.r + 1 ELSE s.r,
        doubling |-> s.doubling /\ FollowsDoubling(cfg, s, e)]
  ELSE s

Init == tid \in 1..Len(Traces) /\ l = 1 /\ st = [s |-> 1, r |-> 0, doubling |-> TRUE] /\ verdict = "ok"

Next ==
  LET T == Traces[tid] IN
  /\ l <= Len(T.ev)
  /\ LET e == T.ev[l]
         cl == Clause(T.cfg, st, e) IN
       /\ verdict' = IF verdict = "ok" /\ cl # "ok" THEN cl \o "@" \o ToString(l) ELSE verdict
       /\ st' = NextSt(T.cfg, st, e)
       /\ (l = Len(T.ev)) => PrintT(<<"VERDICT", tid, verdict'>>)
       /\ (l = Len(T.ev) /\ ~st'.doubling) => PrintT(<<"NOTDOUBLING", tid>>)
  /\ l' = l + 1 /\ UNCHANGED tid

Spec == Init /\ [][Next]_<<tid, l, st, verdict>>
================================================================================
