\* thorough: translations {-3,-1,0,1,3}^3; scales 2^k, |k| in {0,1,2,3,5,9} (2^9: pow(512, 1/3) is one ulp below 8
\* in float64); perturbations 10^-1 .. 10^-12 x 16 patterns x rtol = atol in {1e-2 .. 1e-8}; Euler quarter turns -8..8
SPECIFICATION Spec
CONSTANTS
  TCoords = {0, 1, 3}
  ScaleExps = {0, 1, 2, 3, 5, 9}
  PertKs = {1, 2, 3, 4, 5, 6, 7, 8, 9, 10, 11, 12}
  TolEs = {2, 3, 4, 5, 6, 7, 8}
  EulerKMax = 8
INVARIANT TypeOK
INVARIANT BranchTotalExclusive
INVARIANT BranchWellConditioned
INVARIANT RoundTripTetra
INVARIANT RoundTripCube
INVARIANT ValidAccepted
INVARIANT SameMatrixOut
INVARIANT ScaleIsCubeRoot
INVARIANT InvalidRaises
INVARIANT InvalidClassAgrees
INVARIANT PertModelExact
INVARIANT CheckClassesSound
INVARIANT ShearKeepsDet
INVARIANT EulerComposition
INVARIANT EulerInverse
INVARIANT EulerRoundTrip
INVARIANT EulerOfEuler2
CHECK_DEADLOCK FALSE
