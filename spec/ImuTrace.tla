-------------------------------- MODULE ImuTrace --------------------------------
(* Validates executions recorded from real pypose.module.IMUPreintegrator objects.      *)
(*                                                                                      *)
(* kind "num":   one stream fed to ONE integrator in consecutive chunks.  Per call the   *)
(*   driver logs where it is in the stream, which frames its two references folded       *)
(*   (one-shot call on a fresh integrator; independent sequential recursion), and the    *)
(*   integer error measures (ulps of the dtype, relative to max(1, |reference|), capped). *)
(*   This module decides, with the operators of the design module Imu, which frames      *)
(*   MUST have been folded (Origin), whether the rank is admissible, the result shapes,  *)
(*   and whether each measure is within the property's tolerance TolUlps(#folded frames).*)
(* kind "exact": zero angular rate on the dyadic / Hurwitz lattice.  Inputs and outputs  *)
(*   are logged as integer pairs [m, e]; the expected rows are recomputed here with      *)
(*   ImuExact!XCall from the logged inputs and compared by equality.                     *)
(* Verdicts are total: every event is consumed, the first failing clause is named and    *)
(* the state is resynchronised to the logged one.                                        *)
EXTENDS Naturals, Integers, Sequences, TLC, Json, IOUtils

Traces == JsonDeserialize(IOEnv.TRACE_FILE)

I == INSTANCE Imu WITH MaxF <- 0, MaxB <- 0, RotLeft <- FALSE, CovLeft <- FALSE, InitOnLeft <- TRUE,
       GravPost <- TRUE, KeepHist <- FALSE,
       F <- 0, B <- 0, reset <- FALSE, known <- FALSE, k <- 0, buf <- <<>>, out <- <<>>, pc <- "idle",
       call <- [len |-> 0, rank |-> 3], hist <- <<>>, L <- 1, v <- <<>>, s <- 1, rounds <- 0

X == INSTANCE ImuExact WITH XF <- {}, Box <- "none",
       stream <- <<>>, g <- <<0, 0>>, k <- 0, S <- <<>>, W <- <<>>, rows <- <<>>, wrows <- <<>>

VARIABLES tid, l, st, verdict
\* st = [k |-> frames consumed, S |-> exact buffer state (kind "exact")]

\* ------------------------------------------------------------------ kind "num"
Judged(u) == u >= 0            \* -1 = not measured (no oracle for this configuration)
CallClause(cfg, s, e) ==
  LET nf  == e.hi - e.lo + 1
      tol == I!TolUlps(nf) IN
  CASE e.k0 # s.k                                   -> "stream_position"
    [] e.len < 1 \/ e.k0 + e.len > cfg.F            -> "chunk_outside_stream"
    [] ~I!RankOK(e.rank, cfg.B, e.len)              -> "rank_guard"
    [] e.lo # I!Origin(cfg.reset, s.k) + 1          -> "fold_origin"
    [] e.hi # s.k + e.len                           -> "fold_end"
    [] e.shape_rot # I!OutShape(cfg.B, e.len, 4)    -> "shape_rot"
    [] e.shape_vel # I!OutShape(cfg.B, e.len, 3)    -> "shape_vel"
    [] e.shape_pos # I!OutShape(cfg.B, e.len, 3)    -> "shape_pos"
    [] e.shape_cov # <<cfg.B, 9, 9>>                -> "shape_cov"
    [] ~e.finite                                    -> "nonfinite"
    [] ~Judged(e.one_rot) \/ ~Judged(e.one_vel) \/ ~Judged(e.one_pos) \/ ~Judged(e.one_cov)
                                                    -> "chunk_unmeasured"
    [] e.one_rot > tol                              -> "chunk_rot"
    [] e.one_vel > tol                              -> "chunk_vel"
    [] e.one_pos > tol                              -> "chunk_pos"
    [] e.one_cov > tol                              -> "chunk_cov"
    [] cfg.g0 /\ (~Judged(e.rec_rot) \/ ~Judged(e.rec_vel) \/ ~Judged(e.rec_pos)) -> "recursion_unmeasured"
    [] cfg.g0 /\ e.rec_rot > tol                    -> "rec_rot"
    [] cfg.g0 /\ e.rec_vel > tol                    -> "rec_vel"
    [] cfg.g0 /\ e.rec_pos > tol                    -> "rec_pos"
    [] ~cfg.reset /\ Judged(e.buf_last) /\ e.buf_last > tol -> "buffer_not_last_state"
    [] cfg.reset /\ Judged(e.buf_init) /\ e.buf_init > tol  -> "buffer_not_initial_state"
    [] e.asym > tol                                 -> "cov_asymmetric"
    [] e.neg > tol                                  -> "cov_not_psd"
    [] OTHER -> "ok"

\* the same chunk from the same state under another admissible input rank
RankClause(cfg, s, e) ==
  LET tol == I!TolUlps(e.nfold) IN
  CASE ~I!RankOK(e.rank, cfg.B, e.len)              -> "rank_guard"
    [] e.k0 + e.len # s.k                           -> "stream_position"     \* logged right after its call
    [] e.shape_rot # I!OutShape(cfg.B, e.len, 4)    -> "rank_shape_rot"
    [] e.shape_vel # I!OutShape(cfg.B, e.len, 3)    -> "rank_shape_vel"
    [] e.shape_pos # I!OutShape(cfg.B, e.len, 3)    -> "rank_shape_pos"
    [] e.shape_cov # <<cfg.B, 9, 9>>                -> "rank_shape_cov"
    [] e.d_rot > tol                                -> "rank_rot"
    [] e.d_vel > tol                                -> "rank_vel"
    [] e.d_pos > tol                                -> "rank_pos"
    [] e.d_cov > tol                                -> "rank_cov"
    [] OTHER -> "ok"

\* "composed with the initial state as documented": a default-constructed integrator called with
\* init_state = (p0, R0, v0) gives the same states as an integrator constructed with that state
InitStateClause(cfg, s, e) ==
  LET tol == I!TolUlps(e.nfold) IN
  CASE ~e.finite        -> "initstate_nonfinite"
    [] e.d_rot > tol    -> "initstate_rot"
    [] e.d_vel > tol    -> "initstate_vel"
    [] e.d_pos > tol    -> "initstate_pos"
    [] OTHER -> "ok"

\* ------------------------------------------------------------------ kind "exact"
XFrames(cfg, e) == [i \in 1..Len(e.dt) |-> [dt |-> e.dt[i], acc |-> e.acc[i],
                                            rk |-> IF cfg.known THEN e.rk[i] ELSE <<>>]]
XRows(cfg, s, e) == X!XCall(s.S, XFrames(cfg, e), cfg.g)
XLogged(e, i) == [q |-> e.q[i], v |-> e.v[i], p |-> e.p[i]]
XInit(cfg) == [q |-> cfg.init.q, v |-> cfg.init.v, p |-> cfg.init.p]
XClause(cfg, s, e) ==
  LET len == Len(e.dt)
      R   == XRows(cfg, s, e)
      buf == IF cfg.reset THEN XInit(cfg) ELSE XLogged(e, len) IN
  CASE e.k0 # s.k                                                     -> "stream_position"
    [] len < 1 \/ Len(e.acc) # len \/ Len(e.q) # len \/ Len(e.v) # len \/ Len(e.p) # len -> "x_rows"
    [] cfg.known /\ Len(e.rk) # len                                   -> "x_rows"
    [] \E i \in 1..len : ~X!SameRot(e.q[i], R[i].q)                   -> "x_rot"
    [] \E i \in 1..len : e.v[i] # R[i].v                              -> "x_vel"
    [] \E i \in 1..len : e.p[i] # R[i].p                              -> "x_pos"
    [] ~X!SameState([q |-> e.buf.q, v |-> e.buf.v, p |-> e.buf.p], buf) -> "x_buffer"
    [] OTHER -> "ok"

\* ------------------------------------------------------------------ verdicts
Clause(cfg, s, e) ==
  CASE e.act = "call"  -> CallClause(cfg, s, e)
    [] e.act = "rank"  -> RankClause(cfg, s, e)
    [] e.act = "initstate" -> InitStateClause(cfg, s, e)
    [] e.act = "xcall" -> XClause(cfg, s, e)
    [] e.act = "done"  -> IF s.k = cfg.F THEN "ok" ELSE "stream_not_consumed"
    [] e.act = "raise" -> "raised"
    [] OTHER -> "unknown_event"

NextSt(cfg, s, e) ==
  CASE e.act = "call"  -> [s EXCEPT !.k = e.k0 + e.len]
    [] e.act = "xcall" -> IF Len(e.dt) < 1 \/ Len(e.q) < Len(e.dt) \/ Len(e.v) < Len(e.dt) \/ Len(e.p) < Len(e.dt)
                          THEN s
                          ELSE [k |-> e.k0 + Len(e.dt),
                                S |-> IF cfg.reset THEN XInit(cfg) ELSE XLogged(e, Len(e.dt))]
    [] OTHER -> s

St0(cfg) == [k |-> 0, S |-> IF cfg.kind = "exact" THEN XInit(cfg) ELSE <<>>]

Init == tid \in 1..Len(Traces) /\ l = 1 /\ st = St0(Traces[tid].cfg) /\ verdict = "ok"

Next ==
  LET T == Traces[tid] IN
  /\ l <= Len(T.ev)
  /\ LET e == T.ev[l]
         cl == Clause(T.cfg, st, e) IN
       /\ verdict' = IF verdict = "ok" /\ cl # "ok" THEN cl \o "@" \o ToString(l) ELSE verdict
       /\ st' = NextSt(T.cfg, st, e)
       /\ (l = Len(T.ev)) => PrintT(<<"VERDICT", tid, verdict'>>)
  /\ l' = l + 1 /\ UNCHANGED tid

Spec == Init /\ [][Next]_<<tid, l, st, verdict>>
================================================================================
