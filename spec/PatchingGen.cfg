SPECIFICATION Spec
CONSTANTS
  GDepth = 2
  GPoints = 2
  GLen = 16
