\* seeded design mutant (InitOnLeft = FALSE): TLC must report a violated invariant (run by bin/check C16 --selftest)
SPECIFICATION Spec
CONSTANTS
  MaxF = 4
  MaxB = 2
  RotLeft = FALSE
  CovLeft = FALSE
  InitOnLeft = FALSE
  GravPost = TRUE
  KeepHist = TRUE
INVARIANT TypeOK
INVARIANT BufferIsFold
INVARIANT BufferCovIsFold
INVARIANT OutputIsFold
INVARIANT OutputCovIsFold
INVARIANT ScanLength
INVARIANT ScanSound
INVARIANT HistIsChunking
CHECK_DEADLOCK FALSE
