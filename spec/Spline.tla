-------------------------------- MODULE Spline --------------------------------
(* pypose.chspline (cubic Hermite spline, finite-difference tangents) and the       *)
(* translation (commutative) instance of pypose.bspline (cumulative cubic B-spline), *)
(* transcribed over exact integers.                                                  *)
(*                                                                                   *)
(* The module follows the data flow of the implementation (function/spline.py):      *)
(*   chspline:  intervals = arange(0,1,interval)      -> K multiples of the interval *)
(*              timeline  = (i + intervals)[: -(K-1)] -> (N-1)K+1 sample times       *)
(*              idxs      = searchsorted(x[1:], t)    -> Seg                         *)
(*              m         = centred differences       -> Tan2 (twice the tangent)    *)
(*              hh        = A @ t^(0..3)              -> HH                          *)
(*              p = hh0 p_i + hh1 m_i + hh2 p_i+1 + hh3 m_i+1 -> ChVal               *)
(*   bspline:   pad (extrapolate), w = B @ t^(0..3) / 6 -> WW,                       *)
(*              T_j * Exp(w0 d1) * Exp(w1 d2) * Exp(w2 d3) -> BsVal (additive group) *)
(* Sample times are s/D with D = 2^m, so all values are integers over a common       *)
(* denominator (2 D^3 for chspline, 6 D^3 for bspline) and every law below is an     *)
(* integer identity that TLC checks exhaustively on a lattice of control points.     *)
(*                                                                                   *)
(* State machine: Init chooses a task and its input, Emit produces one output        *)
(* sample per step (the implementation is vectorised; samples are independent).      *)
(*   task "ch"  : chspline through integer points, interval 2^-m                     *)
(*   task "bs"  : bspline through integer translations, interval 2^-m, extrapolate   *)
(*   task "cnt" : counting the multiples of an interval M / 2^E that lie in [0,1)    *)
EXTENDS Naturals, Integers, Sequences, FiniteSets, TLC

CONSTANTS NSet,     \* numbers of points explored (chspline >= 2, bspline >= 4 or >= 2 extrapolated)
          PMax,     \* control point coordinates range over -PMax..PMax
          MSet,     \* interval exponents m (interval = 2^-m, m >= 1)
          CntMax    \* the counting task explores mantissas 1..CntMax (and a few large ones)

VARIABLES task, inp, s, out
vars == <<task, inp, s, out>>

Pow2(k) == IF k = 0 THEN 1 ELSE 2 ^ k
CeilDiv(a, b) == (a + b - 1) \div b

\* ------------------------------------------------------------------ shared pieces
\* powers of the local parameter t = r / D, scaled by D^3:  D^3 * <<1, t, t^2, t^3>>
TT(r, D) == <<D * D * D, r * D * D, r * r * D, r * r * r>>
Dot4(a, b) == a[1] * b[1] + a[2] * b[2] + a[3] * b[3] + a[4] * b[4]

\* ------------------------------------------------------------------ chspline
A == << <<1, 0, -3, 2>>, <<0, 1, -2, 1>>, <<0, 0, 3, -2>>, <<0, 0, -1, 1>> >>
HH(r, D) == [a \in 1..4 |-> Dot4(A[a], TT(r, D))]          \* Hermite basis * D^3

\* twice the finite-difference tangent at knot i (1-based):  one-sided at the ends,
\* mean of the two adjacent differences inside
Tan2(p, i) ==
  IF i = 1 THEN 2 * (p[2] - p[1])
  ELSE IF i = Len(p) THEN 2 * (p[Len(p)] - p[Len(p) - 1])
  ELSE p[i + 1] - p[i - 1]

\* number of samples for N points and K samples per unit interval: N rows of K times,
\* flattened, the last K-1 dropped
ChCount(N, K) == N * K - (K - 1)

\* segment (0-based) used for sample s (time s/D): searchsorted(<<1..N-1>>, t), left
Seg(D, sidx) == IF sidx = 0 THEN 0 ELSE (sidx - 1) \div D

\* Hermite value of segment g (0-based) at local parameter r/D, numerator over 2 D^3
Herm(p, D, g, r) ==
  LET h == HH(r, D) IN
    h[1] * 2 * p[g + 1] + h[2] * Tan2(p, g + 1) + h[3] * 2 * p[g + 2] + h[4] * Tan2(p, g + 2)

ChVal(p, D, sidx) == LET g == Seg(D, sidx) IN Herm(p, D, g, sidx - g * D)
ChDen(D) == 2 * D * D * D

\* ------------------------------------------------------------------ bspline (additive instance)
B == << <<5, 3, -3, 1>>, <<1, 3, 3, -2>>, <<0, 0, 0, 1>> >>     \* 6 * cumulative basis matrix
WW(r, D) == [a \in 1..3 |-> Dot4(B[a], TT(r, D))]               \* 6 D^3 * lambda_a(r/D)

Pad(p, ext) == IF ext THEN <<p[1], p[1]>> \o p \o <<p[Len(p)], p[Len(p)]>> ELSE p

\* segment j (1-based first pose of the four) at local parameter r/D, numerator over 6 D^3
BsSeg(q, D, j, r) ==
  LET w == WW(r, D) IN
    6 * D * D * D * q[j] + w[1] * (q[j + 1] - q[j]) + w[2] * (q[j + 2] - q[j + 1])
                         + w[3] * (q[j + 3] - q[j + 2])

BsCount(N, K, ext) == ((IF ext THEN N + 4 ELSE N) - 3) * K + 1

\* sample sidx (0-based) of bspline(p, 2^-m, ext): segments of D samples, then the end pose
BsVal(p, D, ext, sidx) ==
  LET q == Pad(p, ext)
      last == (Len(q) - 3) * D
  IN IF sidx = last THEN BsSeg(q, D, Len(q) - 3, D)
     ELSE BsSeg(q, D, sidx \div D + 1, sidx % D)
BsDen(D) == 6 * D * D * D

\* polynomial rows: value and derivatives at 0 and 1
At0(c) == c[1]
At1(c) == c[1] + c[2] + c[3] + c[4]
Der(c) == <<c[2], 2 * c[3], 3 * c[4], 0>>

\* ------------------------------------------------------------------ counting multiples
\* big naturals: little-endian sequences of LL limbs in base 2^15 (53-bit mantissas times
\* counts up to 2^10 fit in 75 bits)
BB == 32768
LL == 6
ToLimbs(n) == <<n % BB, (n \div BB) % BB, n \div (BB * BB), 0, 0, 0>>
RECURSIVE MulC(_, _, _, _)
MulC(x, k, i, c) ==
  IF i > Len(x) THEN <<>>
  ELSE LET v == x[i] * k + c IN <<v % BB>> \o MulC(x, k, i + 1, v \div BB)
MulSmall(x, k) == MulC(x, k, 1, 0)
RECURSIVE AddC(_, _, _)
AddC(x, i, c) ==
  IF i > Len(x) THEN <<>>
  ELSE LET v == x[i] + c IN <<v % BB>> \o AddC(x, i + 1, v \div BB)
AddSmall(x, k) == AddC(x, 1, k)
PowLimbs(e) == [i \in 1..LL |-> IF i = e \div 15 + 1 THEN Pow2(e % 15) ELSE 0]
RECURSIVE LessFrom(_, _, _)
LessFrom(x, y, i) ==
  IF i = 0 THEN FALSE ELSE IF x[i] # y[i] THEN x[i] < y[i] ELSE LessFrom(x, y, i - 1)
BigLess(x, y) == LessFrom(x, y, LL)

KMax == 256
\* number of multiples j * (x / 2^e), j = 0, 1, 2, ..., that lie in [0, 1); 0 = out of range
KBig(x, e) ==
  LET S == {j \in 0..KMax : BigLess(MulSmall(x, j), PowLimbs(e))} IN
    IF Cardinality(S) > KMax THEN 0 ELSE Cardinality(S)

\* the sample counts a correct chspline may return for N points and interval x / 2^e:
\* the exact count, and -- only when a one-ulp larger interval changes the number of
\* multiples (the interval is within an ulp of 1/n) -- also the count for that neighbour
CountsAllowed(N, x, e) ==
  {ChCount(N, KBig(x, e)), ChCount(N, KBig(AddSmall(x, 1), e))}

\* ------------------------------------------------------------------ the enumerating machine
Seqs(S, n) == [1..n -> S]

PSet == (0 - PMax)..PMax
\* intervals M / 2^E of the counting task: all small mantissas, and float32-sized ones
\* (2^20 -+ 1, fl32(0.1) = 13421773 / 2^27, fl32(1/3) = 11184811 / 2^25, fl32(0.7) = 11744051 / 2^24)
CntMant == (1..CntMax) \cup {1048575, 1048576, 1048577, 13421773, 11184811, 11744051}
CntExp == 1..30

Init ==
  /\ s = 0 /\ out = <<>>
  /\ \/ /\ task = "ch"
        /\ \E n \in {k \in NSet : k >= 2}, m \in MSet : \E p \in Seqs(PSet, n) :
             inp = [N |-> n, p |-> p, m |-> m, ext |-> FALSE]
     \/ /\ task = "bs"
        /\ \E n \in NSet, m \in MSet, x \in BOOLEAN : \E p \in Seqs(PSet, n) :
             /\ (x \/ n >= 4) /\ (~x \/ n <= 4)
             /\ inp = [N |-> n, p |-> p, m |-> m, ext |-> x]
     \/ /\ task = "cnt"
        /\ \E mm \in CntMant, e \in CntExp :
             /\ mm < Pow2(e) /\ mm * 64 >= Pow2(e)
             /\ inp = [N |-> 2, p |-> <<mm, e>>, m |-> 0, ext |-> FALSE]

D == Pow2(inp.m)
Total ==
  CASE task = "ch" -> ChCount(inp.N, D)
    [] task = "bs" -> BsCount(inp.N, D, inp.ext)
    [] OTHER -> 0

\* one output sample per step; for "cnt": s is the multiple being tested, the loop runs
\* while s * M < 2^E  (s * interval < 1)
Emit ==
  /\ \/ /\ task = "ch" /\ s < Total
        /\ out' = Append(out, ChVal(inp.p, D, s))
     \/ /\ task = "bs" /\ s < Total
        /\ out' = Append(out, BsVal(inp.p, D, inp.ext, s))
     \/ /\ task = "cnt" /\ s * inp.p[1] < Pow2(inp.p[2])
        /\ out' = out
  /\ s' = s + 1
  /\ UNCHANGED <<task, inp>>

Done ==
  CASE task = "cnt" -> s * inp.p[1] >= Pow2(inp.p[2])
    [] OTHER -> s >= Total

Finished == Done /\ UNCHANGED vars
Next == Emit \/ Finished
Spec == Init /\ [][Next]_vars /\ WF_vars(Emit)

\* ------------------------------------------------------------------ properties
IsLine(p) == \A i \in 1..Len(p) : p[i] - p[1] = (i - 1) * (p[2] - p[1])

\* Sample-wise laws are stated for the sample emitted last: every sample is the last one in
\* some reachable state.  Laws that depend on the input only are checked in the initial state.
Latest == IF out = <<>> THEN {} ELSE {Len(out)}

\* --- chspline
\* passes through every input point at integer times
ChInterpolates ==
  task = "ch" => \A k \in Latest :
      ((k - 1) % D = 0) => out[k] = ChDen(D) * inp.p[(k - 1) \div D + 1]

\* at a knot the value does not depend on which of the two adjacent segments is used
ChSegmentIndependent ==
  (task = "ch" /\ s = 0) => \A g \in 0..(inp.N - 2) :
      /\ Herm(inp.p, D, g, 0) = ChDen(D) * inp.p[g + 1]
      /\ Herm(inp.p, D, g, D) = ChDen(D) * inp.p[g + 2]

\* uniformly sampled straight lines are reproduced exactly:  p(t) = p_1 + (p_2 - p_1) t
ChLines ==
  (task = "ch" /\ IsLine(inp.p)) => \A k \in Latest :
      out[k] = ChDen(D) * inp.p[1] + 2 * D * D * (inp.p[2] - inp.p[1]) * (k - 1)

\* centred differences are the exact derivative of a quadratic, so a uniformly sampled parabola
\* is reproduced exactly on every segment whose two knots are interior (this pins the tangents:
\* interpolation and line reproduction alone hold for any tangents that are exact on lines)
IsQuadratic(p) == \A i \in 2..(Len(p) - 1) : p[i + 1] - 2 * p[i] + p[i - 1] = p[3] - 2 * p[2] + p[1]
ChQuadraticsInterior ==
  (task = "ch" /\ inp.N >= 4 /\ IsQuadratic(inp.p)) => \A k \in Latest :
      LET g == Seg(D, k - 1) IN
        (g >= 1 /\ g + 1 <= inp.N - 2) =>
          out[k] = ChDen(D) * inp.p[1] + 2 * D * D * (inp.p[2] - inp.p[1]) * (k - 1)
                   + D * (inp.p[3] - 2 * inp.p[2] + inp.p[1]) * (k - 1) * ((k - 1) - D)

\* (N-1) K + 1 samples, K = number of multiples of the interval in [0,1)
ChSampleCount ==
  (task = "ch" /\ Done) => /\ Len(out) = (inp.N - 1) * D + 1
                           /\ out[Len(out)] = ChDen(D) * inp.p[inp.N]

\* every sample uses a valid segment and a local parameter in [0, 1]
ChSegmentsValid ==
  (task = "ch" /\ s = 0) => \A k \in 0..(Total - 1) :
      LET g == Seg(D, k) IN g \in 0..(inp.N - 2) /\ (k - g * D) \in 0..D

\* --- cumulative B-spline basis (polynomial identities, independent of the state)
BasisContinuity ==
  task \in {"ch", "bs", "cnt"} =>      \* (state-level on purpose, so that TLC reports it as an invariant)
  /\ At1(B[1]) = 6 /\ At1(B[2]) = At0(B[1]) /\ At1(B[3]) = At0(B[2]) /\ At0(B[3]) = 0
  /\ At1(Der(B[1])) = 0 /\ At1(Der(B[2])) = At0(Der(B[1]))
  /\ At1(Der(B[3])) = At0(Der(B[2])) /\ At0(Der(B[3])) = 0
  /\ At1(Der(Der(B[1]))) = 0 /\ At1(Der(Der(B[2]))) = At0(Der(Der(B[1])))
  /\ At1(Der(Der(B[3]))) = At0(Der(Der(B[2]))) /\ At0(Der(Der(B[3]))) = 0
\* lambda_0 + lambda_1 + lambda_2 = 1 + u : a constant twist is traversed at unit speed
BasisUnitSpeed ==
  task \in {"ch", "bs", "cnt"} =>
  [k \in 1..4 |-> B[1][k] + B[2][k] + B[3][k]] = <<6, 6, 0, 0>>

\* --- bspline on the additive group
\* continuous across segments: first sample of a segment = end of the previous one
BsContinuous ==
  (task = "bs" /\ s = 0) => LET q == Pad(inp.p, inp.ext) IN
    \A j \in 2..(Len(q) - 3) : BsSeg(q, D, j, 0) = BsSeg(q, D, j - 1, D)

\* constant-velocity motion p_i = p_1 + (i-1) v is reproduced at time j + r/D (0-based pose
\* times) by segment j
BsLines ==
  (task = "bs" /\ ~inp.ext /\ IsLine(inp.p)) => \A k \in Latest :
      out[k] = BsDen(D) * inp.p[1] + 6 * D * D * (inp.p[2] - inp.p[1]) * (D + (k - 1))

\* with extrapolate the curve starts at the first and ends at the last pose
BsEnds ==
  (task = "bs" /\ inp.ext) =>
      /\ (Len(out) >= 1 => out[1] = BsDen(D) * inp.p[1])
      /\ (Done => out[Len(out)] = BsDen(D) * inp.p[inp.N])

\* commutes with a fixed translation of all poses
BsEquivariant ==
  task = "bs" => \A c \in {-3, 1, 2} : \A k \in Latest :
      BsVal([i \in 1..inp.N |-> inp.p[i] + c], D, inp.ext, k - 1) = out[k] + BsDen(D) * c

BsSampleCount ==
  (task = "bs" /\ Done) => Len(out) = BsCount(inp.N, D, inp.ext)

\* --- counting: the loop count equals ceil(1 / interval) and the big-number operator
CntIsCeil ==
  (task = "cnt" /\ Done) =>
      /\ s = CeilDiv(Pow2(inp.p[2]), inp.p[1])
      /\ s = KBig(ToLimbs(inp.p[1]), inp.p[2])
      /\ s = Cardinality({j \in 0..65 : j * inp.p[1] < Pow2(inp.p[2])})
\* (constant-level: TLC evaluates it once)
CntDyadic ==
  \A m \in 1..8 : KBig(ToLimbs(1), m) = Pow2(m) /\ KBig(ToLimbs(Pow2(20)), m + 20) = Pow2(m)

Terminates == <>Done
================================================================================
