------------------------------ MODULE Controllers ------------------------------
(* Stopping controllers of pypose: optim.scheduler.StopOnPlateau ("SoP") and       *)
(* utils.stepper.ReduceToBason ("RtB"), their reset, and the driver loops built on  *)
(* them (scheduler.optimize, MPC.forward, ICP.forward).                             *)
(*                                                                                  *)
(* One action per public call: Step(e) = controller.step(loss) with the abstract    *)
(* class e of the loss it is given, Reset = ReduceToBason.reset() resp.             *)
(* load_state_dict(initial state_dict) for StopOnPlateau, and the driver loop       *)
(* actions LoopBody / LoopExit.  The implementation-shaped state is                 *)
(* (steps, pc, cont); hist is the history of abstract events since the last reset,  *)
(* against which the *documented* stopping causes are stated.                       *)
EXTENDS Naturals, Integers, Sequences, FiniteSets, TLC

CONSTANTS MaxStepsSet,   \* set of step budgets explored
          PatienceSet,   \* set of patience values explored
          MaxLen,        \* bound on events since the last reset (state constraint)
          MaxResets,     \* bound on resets in a behaviour
          KeepHist,      \* TRUE: keep the event history (for the statement-level invariant)
          WithSnap       \* TRUE: also explore state_dict() / load_state_dict() into a fresh object (checkpointing)

VARIABLES c,      \* configuration record [max, pat] chosen once
          steps,  \* controller.steps
          pc,     \* controller.patience_count
          cont,   \* controller.continual()
          hist,   \* abstract events since the last reset (<<>> when ~KeepHist)
          n,      \* number of events since the last reset
          resets, \* number of resets so far
          loop,   \* driver loop: "idle" | "running" | "done";  loopSteps counted in n
          saved   \* snapshot taken by state_dict() (NoSnap if none): checkpoint of a StopOnPlateau

vars == <<c, steps, pc, cont, hist, n, resets, loop, saved>>
NoSnap == [none |-> TRUE]

\* ---------------------------------------------------------------- abstract alphabet
\* dec: how the loss moved relative to the configured amount;
\* kill: the optimizer's last step involved a rejection (SoP) / all losses below tol (RtB).
Decs   == {"big", "small", "equal", "incr"}
Events == [dec : Decs, kill : BOOLEAN]
NoImp(e) == e.dec # "big"

\* ---------------------------------------------------------------- transition functions
\* (shared with ControllersTrace, which applies them to recorded executions)
InitCtl == [steps |-> 0, pc |-> 0, cont |-> TRUE]

StepCtl(cfg, s, e) ==
  LET st == s.steps + 1
      p  == IF NoImp(e) THEN s.pc + 1 ELSE 0
  IN  [steps |-> st, pc |-> p,
       cont  |-> s.cont /\ st < cfg.max /\ p < cfg.pat /\ ~e.kill]

\* ---------------------------------------------------------------- the documented causes
\* Cause(h, i): step i is one at which the documentation says the controller stops.
Cause(cfg, h, i) ==
  \/ i >= cfg.max
  \/ h[i].kill
  \/ (i >= cfg.pat /\ \A j \in (i - cfg.pat + 1)..i : NoImp(h[j]))

Stopped(cfg, h) == \E i \in 1..Len(h) : Cause(cfg, h, i)

\* ---------------------------------------------------------------- actions
Init ==
  /\ c \in [max : MaxStepsSet, pat : PatienceSet]
  /\ steps = 0 /\ pc = 0 /\ cont = TRUE
  /\ hist = <<>> /\ n = 0 /\ resets = 0 /\ loop = "idle" /\ saved = NoSnap

Step(e) ==
  /\ LET r == StepCtl(c, [steps |-> steps, pc |-> pc, cont |-> cont], e) IN
       steps' = r.steps /\ pc' = r.pc /\ cont' = r.cont
  /\ hist' = IF KeepHist THEN Append(hist, e) ELSE hist
  /\ n' = n + 1
  /\ UNCHANGED <<c, resets, saved>>

UserStep == \E e \in Events : loop = "idle" /\ Step(e) /\ UNCHANGED loop

\* scheduler.state_dict() ... later: a NEW scheduler object .load_state_dict(snapshot)  (checkpoint / restore).
\* The restored controller must behave exactly like the one that was saved.
Save ==
  /\ WithSnap /\ loop = "idle" /\ saved = NoSnap
  /\ saved' = [steps |-> steps, pc |-> pc, cont |-> cont, hist |-> hist, n |-> n]
  /\ UNCHANGED <<c, steps, pc, cont, hist, n, resets, loop>>
Restore ==
  /\ WithSnap /\ loop = "idle" /\ saved # NoSnap /\ resets < MaxResets
  /\ steps' = saved.steps /\ pc' = saved.pc /\ cont' = saved.cont /\ hist' = saved.hist /\ n' = saved.n
  /\ resets' = resets + 1
  /\ UNCHANGED <<c, loop, saved>>

Reset ==
  /\ loop = "idle"
  /\ resets < MaxResets
  /\ steps' = 0 /\ pc' = 0 /\ cont' = TRUE /\ hist' = <<>> /\ n' = 0
  /\ resets' = resets + 1
  /\ UNCHANGED <<c, loop, saved>>

\* Driver loops: ICP.forward and MPC.forward are   reset(); while continual(): body; step(loss)
\* scheduler.optimize is                            while continual(): optimizer.step; step(loss)
LoopStart ==
  /\ loop = "idle" /\ resets < MaxResets
  /\ steps' = 0 /\ pc' = 0 /\ cont' = TRUE /\ hist' = <<>> /\ n' = 0
  /\ resets' = resets + 1 /\ loop' = "running" /\ UNCHANGED <<c, saved>>

LoopBody == \E e \in Events : loop = "running" /\ cont /\ Step(e) /\ UNCHANGED loop

LoopExit == loop = "running" /\ ~cont /\ loop' = "done"
            /\ UNCHANGED <<c, steps, pc, cont, hist, n, resets, saved>>

LoopReturn == loop = "done" /\ loop' = "idle"
            /\ UNCHANGED <<c, steps, pc, cont, hist, n, resets, saved>>

Next == UserStep \/ Reset \/ LoopStart \/ LoopBody \/ LoopExit \/ LoopReturn \/ Save \/ Restore

Spec == Init /\ [][Next]_vars /\ WF_vars(LoopBody) /\ WF_vars(LoopExit)

Bound == n <= MaxLen

\* ---------------------------------------------------------------- properties
TypeOK ==
  /\ steps \in Nat /\ pc \in Nat /\ cont \in BOOLEAN /\ n \in Nat
  /\ loop \in {"idle", "running", "done"}

\* The statement: continual() is true until, and false from, the first step with a cause.
ContIffNoCause == KeepHist => (cont = ~Stopped(c, hist))

StepsCountCalls == steps = n

\* Budget: while the controller still says "continue", fewer than max steps were made.
BudgetInv == cont => steps < c.max

\* pc is the length of the trailing run of non-improving steps.
TrailingRun ==
  KeepHist =>
    /\ pc <= Len(hist)
    /\ \A j \in (Len(hist) - pc + 1)..Len(hist) : NoImp(hist[j])
    /\ (pc < Len(hist) => ~NoImp(hist[Len(hist) - pc]))

\* Once false it stays false until reset (the only actions making cont true reset n).
StaysStopped == [][(~cont /\ cont') => (n' = 0 \/ (saved # NoSnap /\ n' = saved.n /\ cont' = saved.cont))]_vars

\* Reset restores the initial controller state.
ResetRestoresInitial ==
  [][(n' = 0) => (steps' = 0 /\ pc' = 0 /\ cont' = TRUE)]_vars
\* a restored controller is indistinguishable from the saved one
RestoreRestoresSaved ==
  [][(saved # NoSnap /\ saved' = saved /\ resets' = resets + 1 /\ n' = saved.n /\ n' # 0)
        => (steps' = saved.steps /\ pc' = saved.pc /\ cont' = saved.cont)]_vars

\* Every driver loop ends after at most max(1, max) controller steps ...
LoopBounded == (loop \in {"running", "done"}) => n <= (IF c.max < 1 THEN 1 ELSE c.max)
LoopExitsStopped == (loop = "done") => ~cont
\* ... and it does end (liveness; checked only under Spec with fairness, no constraint).
LoopTerminates == (loop = "running") ~> (loop = "done")
================================================================================
