----------------------------- MODULE SplineTrace -----------------------------
(* Validates recorded calls of pypose.chspline / pypose.bspline against Spline.         *)
(*                                                                                      *)
(* Trace kinds (cfg.kind):                                                              *)
(*  "ch"   chspline on integer points, interval 2^-m.  Events: shape, one row per       *)
(*         output sample (numerators over 2 D^3, snapped by the harness), end.          *)
(*         Every row is recomputed here with Spline!ChVal (the Hermite formula).        *)
(*  "cnt"  chspline / bspline sample count for an arbitrary float interval, logged as   *)
(*         the 53-bit mantissa (15-bit limbs) and exponent of the float; the number of  *)
(*         multiples of the interval in [0,1) is computed here on the exact value.      *)
(*  "bsx"  bspline on pure translations with integer coordinates, interval 2^-m         *)
(*         (numerators over 6 D^3), recomputed with Spline!BsVal.                       *)
(*  "chR"  chspline on arbitrary real points / intervals: integer ulp distances at the  *)
(*         knots and from the straight line, judged against the tolerances below.       *)
(*  "bsR"  bspline on general SE3 poses: integer ulp distances for continuity across    *)
(*         segments, constant-twist reproduction, left-equivariance, end poses.         *)
(* Verdicts are total: the first failing clause is named, the state is resynchronised.  *)
EXTENDS Naturals, Integers, Sequences, FiniteSets, TLC, Json, IOUtils

Traces == JsonDeserialize(IOEnv.TRACE_FILE)

S == INSTANCE Spline WITH NSet <- {}, PMax <- 0, MSet <- {}, CntMax <- 0,
                          task <- "", inp <- [m |-> 0], s <- 0, out <- <<>>

VARIABLES tid, l, st, verdict
\* st = [rows |-> number of sample rows consumed, count |-> sample count announced by "shape"]

\* tolerances, in ulps of the dtype (eps * max(1, |value|)); each >= 4 x what the unchanged
\* tree measures (notes/C19.md)
KnotTol  == 8
LineTol  == 32
ContTol  == 256
TwistTol == 1024
EquivTol == 128
EndsTol  == 128

Col(p, c) == [k \in 1..Len(p) |-> p[k][c]]
AllLines(p) == \A c \in 1..Len(p[1]) : S!IsLine(Col(p, c))

ExpectedCount(cfg) ==
  IF cfg.kind = "ch" THEN S!ChCount(cfg.N, S!Pow2(cfg.m))
  ELSE S!BsCount(cfg.N, S!Pow2(cfg.m), cfg.ext)

ExpectedRow(cfg, sidx) ==
  LET D == S!Pow2(cfg.m) IN
  IF cfg.kind = "ch"
  THEN [c \in 1..Len(cfg.p[1]) |-> S!ChVal(Col(cfg.p, c), D, sidx)]
  ELSE [c \in 1..Len(cfg.p[1]) |-> S!BsVal(Col(cfg.p, c), D, cfg.ext, sidx)]

RowClause(cfg, s, e) ==
  LET D == S!Pow2(cfg.m) IN
  CASE e.s # s.rows                       -> "row_order"
    [] e.s >= ExpectedCount(cfg)          -> "extra_row"
    [] e.off                              -> "off_lattice"
    [] cfg.kind = "bsx" /\ ~e.rot_id      -> "bs_rotation_not_identity"
    [] e.v = ExpectedRow(cfg, e.s)        -> "ok"
    [] cfg.kind = "ch" /\ e.s % D = 0     -> "interpolation"
    [] cfg.kind = "ch" /\ AllLines(cfg.p) -> "line"
    [] cfg.kind = "ch"                    -> "hermite"
    [] cfg.ext /\ e.s = 0                 -> "bs_first_pose"
    [] cfg.ext /\ e.s = ExpectedCount(cfg) - 1 -> "bs_last_pose"
    [] ~cfg.ext /\ AllLines(cfg.p)        -> "bs_constant_velocity"
    [] e.s % D = 0                        -> "bs_continuity"
    [] OTHER                              -> "bs_value"

\* sample counts: exact count of multiples on the float's value (Spline!CountsAllowed)
CountClause(cfg, e) ==
  LET allowed == IF cfg.fn = "chspline" THEN S!CountsAllowed(cfg.N, cfg.mant, cfg.exp)
                 ELSE {S!BsCount(cfg.N, S!KBig(cfg.mant, cfg.exp), cfg.ext),
                       S!BsCount(cfg.N, S!KBig(S!AddSmall(cfg.mant, 1), cfg.exp), cfg.ext)}
  IN CASE S!KBig(cfg.mant, cfg.exp) = 0 -> "harness_interval_out_of_range"
       [] e.count \notin allowed        -> "count"
       [] OTHER                         -> "ok"

Clause(cfg, s, e) ==
  CASE e.act = "raise" -> "raised"
    [] cfg.kind \in {"ch", "bsx"} /\ e.act = "shape" ->
         (IF ~e.batch THEN "batch_shape"
          ELSE IF e.count # ExpectedCount(cfg) THEN "count"
          ELSE IF e.dim # Len(cfg.p[1]) + (IF cfg.kind = "bsx" THEN 4 ELSE 0) THEN "dim" ELSE "ok")
    [] cfg.kind \in {"ch", "bsx"} /\ e.act = "row" -> RowClause(cfg, s, e)
    [] cfg.kind \in {"ch", "bsx"} /\ e.act = "end" ->
         (IF s.rows # s.count THEN "rows_missing" ELSE "ok")
    [] cfg.kind = "cnt" /\ e.act = "count" -> CountClause(cfg, e)
    [] cfg.kind = "chR" /\ e.act = "knots" -> (IF e.ulps > KnotTol THEN "interpolation" ELSE "ok")
    [] cfg.kind = "chR" /\ e.act = "line"  -> (IF e.ulps > LineTol THEN "line" ELSE "ok")
    [] cfg.kind = "bsR" /\ e.act = "cont"  -> (IF e.ulps > ContTol THEN "bs_continuity" ELSE "ok")
    [] cfg.kind = "bsR" /\ e.act = "twist" -> (IF e.ulps > TwistTol THEN "bs_constant_twist" ELSE "ok")
    [] cfg.kind = "bsR" /\ e.act = "equiv" -> (IF e.ulps > EquivTol THEN "bs_left_equivariance" ELSE "ok")
    [] cfg.kind = "bsR" /\ e.act = "ends"  ->
         (IF e.first > EndsTol THEN "bs_first_pose"
          ELSE IF e.last > EndsTol THEN "bs_last_pose" ELSE "ok")
    [] OTHER -> "unknown_event"

\* a trace must be complete: lattice traces end with "end", measured traces carry their length
Complete(T, e, k) ==
  IF k < Len(T.ev) THEN "ok"
  ELSE IF T.cfg.kind \in {"ch", "bsx"} /\ e.act \notin {"end", "raise"} THEN "truncated"
  ELSE IF T.cfg.kind \in {"chR", "bsR"} /\ Len(T.ev) # T.cfg.nev THEN "events_missing"
  ELSE "ok"

NextSt(cfg, s, e) ==
  CASE e.act = "shape" -> [s EXCEPT !.count = e.count]
    [] e.act = "row"   -> [s EXCEPT !.rows = e.s + 1]
    [] OTHER -> s

Init == tid \in 1..Len(Traces) /\ l = 1 /\ st = [rows |-> 0, count |-> 0] /\ verdict = "ok"

Next ==
  LET T == Traces[tid] IN
  /\ l <= Len(T.ev)
  /\ LET e == T.ev[l]
         c0 == Clause(T.cfg, st, e)
         cl == IF c0 # "ok" THEN c0 ELSE Complete(T, e, l) IN
       /\ verdict' = IF verdict = "ok" /\ cl # "ok" THEN cl \o "@" \o ToString(l) ELSE verdict
       /\ st' = NextSt(T.cfg, st, e)
       /\ (l = Len(T.ev)) => PrintT(<<"VERDICT", tid, verdict'>>)
  /\ l' = l + 1 /\ UNCHANGED tid

Spec == Init /\ [][Next]_<<tid, l, st, verdict>>
================================================================================
