\* quick: every call script for reject 0..2, three strategies, every strategy state at entry
SPECIFICATION Spec
CONSTANTS
  GStrats = {"Constant", "Adaptive", "TrustRegion"}
  GRejects = {0, 1, 2}
  GHyper = "quick"
