\* thorough: as quick, and every 3x3 matrix with entries -1..1 for least squares
SPECIFICATION Spec
CONSTANTS
  GDims = {1, 2, 3}
  GEMax = 2
  GLDims = {11, 12, 13, 21, 22, 23, 31, 32, 33}
  GTolD = 32768
