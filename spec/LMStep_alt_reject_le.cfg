\* alternative reading `last <= loss` of the reject test (documentation: "loss not decreasing"): every property still holds, i.e. the property leaves equal-loss trials open
SPECIFICATION Spec
CONSTANTS
  Algos = {"LM", "GN"}
  Strategies = {"Constant", "Adaptive", "TrustRegion"}
  RejectSet = {0, 1, 2}
  HyperSet <- HyperQuick
  MaxCalls = 3
  Variant = "reject_le"
INVARIANT TypeOK
INVARIANT ReturnedLossIsTrueLoss
INVARIANT CacheCoherent
INVARIANT NotWorseUnlessExhausted
INVARIANT LastIsGivenLoss
INVARIANT TrialsStartFromGiven
INVARIANT SolverRaiseRestores
INVARIANT TrialsBounded
INVARIANT FirstIterationAlways
INVARIANT RejectCountIsRejections
INVARIANT DampingWithinBounds
INVARIANT GNReturnsNewRecordsPrevious
PROPERTY RejectedTrialRestores
PROPERTY DampingMoves
CHECK_DEADLOCK FALSE
