\* thorough: 125 world points x 64 intrinsics x (None + 24 Hurwitz rotations with translation (1,-2,3))
SPECIFICATION Spec
CONSTANTS
  CoordMag = {0, 1, 2}
  FocalQ = {2, 6}
  CenterQ = {0, 9}
  Trans = {2}
  Deltas = {1}
INVARIANT RotExact
INVARIANT ProjectIsProjectQ
INVARIANT BackOfProject
INVARIANT ProjectOfBack
INVARIANT ReprojZeroExactly
INVARIANT HomoCart
CHECK_DEADLOCK FALSE
