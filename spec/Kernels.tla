------------------------------- MODULE Kernels -------------------------------
(* Robust kernels and correctors of pypose.optim (kernel.py, corrector.py) and the way *)
(* the second-order optimisers use them (optimizer.py: corrector[i](R = R[i], J = J[i]) *)
(* for every residual group, then one stacked linear system).                           *)
(*                                                                                      *)
(* Everything is exact: numbers are rationals <<num, den>> (den > 0, lowest terms).     *)
(* rho' and rho'' of the kernel at c_i = |R_i|^2 are parameters of a row (g1, g2);      *)
(* instances are restricted (Admissible) to those whose square roots are rational, so   *)
(* sqrt(rho') and alpha = 1 - sqrt(1 + 2 c rho''/rho') are rationals too.                *)
(*                                                                                      *)
(* ChooseResiduals / ChooseJacobianAndKernel build the argument (they only split the    *)
(* enumeration so that TLC explores it breadth-first); then one action per public call: *)
(*   CallFastTriggs  FastTriggs(kernel)(R, J)   = (sqrt(rho') R, sqrt(rho') J)          *)
(*   CallTriggs*     Triggs(kernel)(R, J)       masked rows (rho'' > 0 and R_i # 0):     *)
(*                     R' = sqrt(rho')/(1-alpha) R,                                     *)
(*                     J' = sqrt(rho') (I - alpha R R^T/|R|^2) J;  other rows: FastTriggs*)
(*   CallOptStep     GN/LM.step: row i is corrected by the corrector selected for its    *)
(*                   residual group, results are stacked                                *)
(*   CallHuber       Huber(delta)(x)  and its slope; negative input is rejected          *)
(* The properties (C09) are invariants of the state after the call.                     *)
EXTENDS Naturals, Integers, Sequences, FiniteSets, TLC

CONSTANTS ShapeCodes, \* set of 100 N + 10 d + P: rows, residual dimension, parameters
          RMax,       \* residual entries of one-row instances range over -RMax..RMax
          JMax,       \* Jacobian entries of one-row instances range over -JMax..JMax
          RSmall,     \* residual entries (naturals; negated too) of multi-row instances
          JSmall,     \* Jacobian entries (naturals; first one negated) of multi-row instances
          Rho1Quarters,     \* candidate values of rho' in quarters (k stands for k/4)
          SqrtHalves,       \* candidate values of sqrt(1 + 2 c rho''/rho') > 1 in halves, for masked rows
          HuberDeltaHalves, \* Huber thresholds in halves
          HuberRoots  \* Huber inputs are x = u^2, u = k/2 for k in 0..HuberRoots, and two negatives

VARIABLES call,   \* "shape" | "residual" | "idle" (argument complete) | "FastTriggs" | "Triggs" | "OptStep" | "Huber"
          arg,    \* the argument record of the call
          ret     \* what the call returned

vars == <<call, arg, ret>>

\* ================================================================ exact rationals
Abs(a) == IF a < 0 THEN -a ELSE a
RECURSIVE Gcd(_, _)
Gcd(a, b) == IF b = 0 THEN a ELSE Gcd(b, a % b)

Norm(n, d) == IF n = 0 THEN <<0, 1>> ELSE LET g == Gcd(Abs(n), d) IN <<n \div g, d \div g>>
QMk(n, d)  == IF d < 0 THEN Norm(-n, -d) ELSE Norm(n, d)
Q(n)       == <<n, 1>>
Zero == <<0, 1>>
One  == <<1, 1>>
Two  == <<2, 1>>

QNeg(a)    == <<-a[1], a[2]>>
QAdd(a, b) == LET g == Gcd(a[2], b[2]) IN
                Norm(a[1] * (b[2] \div g) + b[1] * (a[2] \div g), (a[2] \div g) * b[2])
QSub(a, b) == QAdd(a, QNeg(b))
QMul(a, b) == IF a[1] = 0 \/ b[1] = 0 THEN Zero
              ELSE LET g1 == Gcd(Abs(a[1]), b[2])
                       g2 == Gcd(Abs(b[1]), a[2])
                   IN  <<(a[1] \div g1) * (b[1] \div g2), (a[2] \div g2) * (b[2] \div g1)>>
QInv(a)    == IF a[1] > 0 THEN <<a[2], a[1]>> ELSE <<-a[2], -a[1]>>      \* a # 0
QDiv(a, b) == QMul(a, QInv(b))
QLt(a, b)  == a[1] * b[2] < b[1] * a[2]
QLe(a, b)  == a[1] * b[2] <= b[1] * a[2]
QPos(a)    == a[1] > 0
QNonNeg(a) == a[1] >= 0

RECURSIVE SqrtUp(_, _)
SqrtUp(n, k) == IF k * k >= n THEN k ELSE SqrtUp(n, k + 1)
ISqrt(n)     == SqrtUp(n, 0)
IsSq(n)      == n >= 0 /\ ISqrt(n) * ISqrt(n) = n
QIsSquare(a) == IsSq(a[1]) /\ IsSq(a[2])
QSqrt(a)     == <<ISqrt(a[1]), ISqrt(a[2])>>          \* only used where QIsSquare(a)

RECURSIVE QSumTo(_, _)
QSumTo(f, n) == IF n = 0 THEN Zero ELSE QAdd(QSumTo(f, n - 1), f[n])
QSum(f)      == QSumTo(f, Len(f))

\* ================================================================ small linear algebra
\* vectors = sequences of rationals; a Jacobian block = d rows of P entries
Dot(u, v)       == QSum([k \in 1..Len(u) |-> QMul(u[k], v[k])])
SqNorm(R)       == Dot(R, R)
ScaleVec(s, R)  == [k \in 1..Len(R) |-> QMul(s, R[k])]
ScaleMat(s, J)  == [k \in 1..Len(J) |-> ScaleVec(s, J[k])]
NCols(J)        == Len(J[1])
RtJ(R, J)       == [p \in 1..NCols(J) |-> QSum([k \in 1..Len(R) |-> QMul(R[k], J[k][p])])]
JtJ(J)          == [p \in 1..NCols(J) |-> [q \in 1..NCols(J) |->
                      QSum([k \in 1..Len(J) |-> QMul(J[k][p], J[k][q])])]]
Outer(v)        == [p \in 1..Len(v) |-> [q \in 1..Len(v) |-> QMul(v[p], v[q])]]
MatLin(a, A, b, B) == [p \in 1..Len(A) |-> [q \in 1..Len(A[p]) |->
                         QAdd(QMul(a, A[p][q]), QMul(b, B[p][q]))]]
VecSum(vs, P)   == [p \in 1..P |-> QSum([i \in 1..Len(vs) |-> vs[i][p]])]
MatSum(ms, P)   == [p \in 1..P |-> [q \in 1..P |-> QSum([i \in 1..Len(ms) |-> ms[i][p][q]])]]

\* ================================================================ the correctors, row by row
\* a row r = [R, J, g1, g2]:  residual R_i, Jacobian block J_i, g1 = rho'(|R_i|^2), g2 = rho''(|R_i|^2)
Masked(r) == QPos(r.g2) /\ SqNorm(r.R) # Zero
Disc(r)   == QAdd(One, QDiv(QMul(QMul(Two, SqNorm(r.R)), r.g2), r.g1))    \* 1 + 2 c rho''/rho'
Alpha(r)  == QSub(One, QSqrt(Disc(r)))

\* instances on which every square root is rational (and rho' > 0 where Triggs divides by it)
Admissible(r) == /\ QNonNeg(r.g1) /\ QIsSquare(r.g1)
                 /\ Masked(r) => (QPos(r.g1) /\ QIsSquare(Disc(r)))

FastRow(r) == LET s == QSqrt(r.g1) IN [R |-> ScaleVec(s, r.R), J |-> ScaleMat(s, r.J)]

TriggsRow(r) ==
  IF ~Masked(r) THEN FastRow(r)
  ELSE LET s  == QSqrt(r.g1)
           a  == Alpha(r)
           c  == SqNorm(r.R)
           v  == RtJ(r.R, r.J)                         \* R^T J
           ac == QDiv(a, c)
       IN [R |-> ScaleVec(QDiv(s, QSub(One, a)), r.R),
           J |-> [k \in 1..Len(r.R) |-> [p \in 1..NCols(r.J) |->
                    QMul(s, QSub(r.J[k][p], QMul(ac, QMul(r.R[k], v[p]))))]]]

FastTriggs(rows) == [i \in 1..Len(rows) |-> FastRow(rows[i])]
Triggs(rows)     == [i \in 1..Len(rows) |-> TriggsRow(rows[i])]
\* optimizer.py: residual group i goes through its own corrector ("T" Triggs, "F" FastTriggs)
OptStep(rows, sel) == [i \in 1..Len(rows) |-> IF sel[i] = "T" THEN TriggsRow(rows[i]) ELSE FastRow(rows[i])]

\* ---------------------------------------------------------------- both sides of the identities
\* `in` = sequence of rows [R, J, g1, g2]; `out` = sequence of [R, J] returned by a corrector
PCols(in) == NCols(in[1].J)

\* J'^T R'  and  sum_i rho'_i J_i^T R_i
GradLHS(out)  == VecSum([i \in 1..Len(out) |-> RtJ(out[i].R, out[i].J)], NCols(out[1].J))
GradRHS(in)   == VecSum([i \in 1..Len(in)  |-> ScaleVec(in[i].g1, RtJ(in[i].R, in[i].J))], PCols(in))

\* the rows of a batch selected by a predicate on their index (others contribute zero)
ZeroMat(P) == [p \in 1..P |-> [q \in 1..P |-> Zero]]

\* J'^T J'  and  sum_i rho'_i J_i^T J_i + 2 rho''_i J_i^T R_i R_i^T J_i  over the rows in I
HessLHS(out, I) == MatSum([i \in 1..Len(out) |-> IF i \in I THEN JtJ(out[i].J) ELSE ZeroMat(NCols(out[1].J))],
                          NCols(out[1].J))
RobustHessRow(r) == MatLin(r.g1, JtJ(r.J), QMul(Two, r.g2), Outer(RtJ(r.R, r.J)))
GNHessRow(r)     == MatLin(r.g1, JtJ(r.J), Zero, JtJ(r.J))
HessRHS(in, I)   == MatSum([i \in 1..Len(in) |-> IF i \in I THEN RobustHessRow(in[i]) ELSE ZeroMat(PCols(in))],
                          PCols(in))
GNHessRHS(in, I) == MatSum([i \in 1..Len(in) |-> IF i \in I THEN GNHessRow(in[i]) ELSE ZeroMat(PCols(in))],
                          PCols(in))

MaskedIdx(in)   == {i \in 1..Len(in) : Masked(in[i])}
UnmaskedIdx(in) == {i \in 1..Len(in) : ~Masked(in[i])}
AllIdx(in)      == 1..Len(in)

\* ================================================================ Huber
\* docstring: y = x if sqrt(x) < delta, 2 delta sqrt(x) - delta^2 otherwise; x = u^2 with u rational
HuberLow(x)         == x
HuberHigh(dl, x)    == QSub(QMul(QMul(Two, dl), QSqrt(x)), QMul(dl, dl))
HuberDoc(dl, x)     == IF QLt(QSqrt(x), dl) THEN HuberLow(x) ELSE HuberHigh(dl, x)
HuberSlopeLow       == One
HuberSlopeHigh(dl, x) == QDiv(dl, QSqrt(x))                                \* x # 0
HuberSlopeDoc(dl, x)  == IF QLt(QSqrt(x), dl) THEN HuberSlopeLow ELSE HuberSlopeHigh(dl, x)
\* the function is continuous with continuous slope, so at the threshold either piece is legal
HuberLegal(dl, x, y) == \/ QLe(QSqrt(x), dl) /\ y = HuberLow(x)
                        \/ QLe(dl, QSqrt(x)) /\ y = HuberHigh(dl, x)
HuberSlopeLegal(dl, x, g) == \/ QLe(QSqrt(x), dl) /\ g = HuberSlopeLow
                             \/ QLe(dl, QSqrt(x)) /\ x # Zero /\ g = HuberSlopeHigh(dl, x)
HuberCall(dl, x) == IF x[1] < 0 THEN [ok |-> FALSE, y |-> Zero, g |-> Zero]
                    ELSE [ok |-> TRUE, y |-> HuberDoc(dl, x), g |-> HuberSlopeDoc(dl, x)]

\* ================================================================ tolerances of the floating clauses
\* (judged by KernelsTrace on measurements of the real kernels; the unit is one eps of the
\*  working dtype times the largest intermediate of the documented closed form)
ClosedFormTol == 64
ZeroAtZeroTol == 64
MonotoneTol   == 8
IdentityTol   == 256     \* corrector identities on off-lattice outputs, eps * sum of |terms|
UlpCap        == 1000000000

\* ================================================================ enumerated instances
\* (TLC configuration files cannot hold tuples, so the cfg states integers in fixed units)
Shapes      == {<<c \div 100, (c \div 10) % 10, c % 10>> : c \in ShapeCodes}
Rho1Set     == {QMk(k, 4) : k \in Rho1Quarters}
SqrtSet     == {QMk(k, 2) : k \in SqrtHalves}
HuberDeltas == {QMk(k, 2) : k \in HuberDeltaHalves}
IntVecs(d, S)    == [1..d -> S]
IntMats(d, P, S) == [1..d -> [1..P -> S]]
QVec(v)          == [k \in 1..Len(v) |-> Q(v[k])]
QMat(m)          == [k \in 1..Len(m) |-> QVec(m[k])]

NonPosRho2 == {Zero, <<-1, 1>>, <<-1, 2>>}
\* rho'' candidates for a row with squared norm c and rho' = g1
Rho2Cands(c, g1) ==
  NonPosRho2 \cup {<<3, 8>>} \cup
  (IF c = Zero \/ g1 = Zero THEN {}
   ELSE {QDiv(QMul(g1, QSub(QMul(s, s), One)), QMul(Two, c)) : s \in SqrtSet})

\* all admissible rows with a given residual vector R (already rational)
RowsWith(R, P, JS) ==
  {r \in UNION { { [R |-> R, J |-> QMat(J), g1 |-> g1, g2 |-> g2] :
                     J \in IntMats(Len(R), P, JS), g2 \in Rho2Cands(SqNorm(R), g1) }
                 : g1 \in Rho1Set } : Admissible(r)}

SmallR == RSmall \cup {-x : x \in RSmall}
SmallJ == JSmall \cup {-x : x \in {CHOOSE y \in JSmall : \A z \in JSmall : y <= z}}
RSetOf(sh) == IF sh[1] = 1 THEN (-RMax)..RMax ELSE SmallR
JSetOf(sh) == IF sh[1] = 1 THEN (-JMax)..JMax ELSE SmallJ

RECURSIVE Prod(_, _)
Prod(Ss, n) == IF n = 0 THEN {<<>>} ELSE {Append(t, r) : t \in Prod(Ss, n - 1), r \in Ss[n]}

NoRet == <<>>
NoRows == <<>>
HuberXs  == {QMk(k * k, 4) : k \in 0..HuberRoots} \cup {<<-1, 1>>, <<-1, 4>>}
HuberArgs == {[kind |-> "huber", sh |-> <<0, 0, 0>>, rows |-> NoRows, delta |-> dl, x |-> x] :
                dl \in HuberDeltas, x \in HuberXs}

\* ================================================================ actions
\* The caller first has a model (shape), then residuals, then Jacobian and kernel derivatives;
\* splitting the choice lets TLC enumerate the instances breadth-first on all workers.
Init == /\ ret = NoRet
        /\ \/ call = "shape" /\ arg \in {[kind |-> "corr", sh |-> sh, rows |-> NoRows, delta |-> Zero, x |-> Zero] : sh \in Shapes}
           \/ call = "idle" /\ arg \in HuberArgs

ChooseResiduals ==
  /\ call = "shape"
  /\ \E Rs \in [1..arg.sh[1] -> IntVecs(arg.sh[2], RSetOf(arg.sh))] :
        arg' = [arg EXCEPT !.rows = [i \in 1..arg.sh[1] |-> [R |-> QVec(Rs[i])]]]
  /\ call' = "residual" /\ UNCHANGED ret

ChooseJacobianAndKernel ==
  /\ call = "residual"
  /\ \E b \in Prod([i \in 1..arg.sh[1] |-> RowsWith(arg.rows[i].R, arg.sh[3], JSetOf(arg.sh))], arg.sh[1]) :
        arg' = [arg EXCEPT !.rows = b]
  /\ call' = "idle" /\ UNCHANGED ret

CallFastTriggs == /\ call = "idle" /\ arg.kind = "corr"
                  /\ call' = "FastTriggs" /\ ret' = FastTriggs(arg.rows) /\ UNCHANGED arg

\* two actions so that TLC's coverage shows that both regions of Triggs are exercised
CallTriggsCurved == /\ call = "idle" /\ arg.kind = "corr" /\ MaskedIdx(arg.rows) # {}
                    /\ call' = "Triggs" /\ ret' = Triggs(arg.rows) /\ UNCHANGED arg
CallTriggsFlat   == /\ call = "idle" /\ arg.kind = "corr" /\ MaskedIdx(arg.rows) = {}
                    /\ call' = "Triggs" /\ ret' = Triggs(arg.rows) /\ UNCHANGED arg
CallTriggs       == CallTriggsCurved \/ CallTriggsFlat

\* residual groups alternate between the two correctors (both orders)
CallOptStep    == /\ call = "idle" /\ arg.kind = "corr" /\ Len(arg.rows) > 1
                  /\ \E first \in {"T", "F"} :
                       LET sel == [i \in 1..Len(arg.rows) |->
                                     IF i % 2 = 1 THEN first ELSE (IF first = "T" THEN "F" ELSE "T")]
                       IN ret' = OptStep(arg.rows, sel)
                  /\ call' = "OptStep" /\ UNCHANGED arg

CallHuber      == /\ call = "idle" /\ arg.kind = "huber"
                  /\ call' = "Huber" /\ ret' = HuberCall(arg.delta, arg.x) /\ UNCHANGED arg

Next == ChooseResiduals \/ ChooseJacobianAndKernel \/ CallFastTriggs \/ CallTriggsCurved \/ CallTriggsFlat
          \/ CallOptStep \/ CallHuber
Spec == Init /\ [][Next]_vars

\* ================================================================ properties
Corrected == call \in {"FastTriggs", "Triggs", "OptStep"}

\* J'^T R' = sum_i rho'(|R_i|^2) J_i^T R_i  for both correctors and any per-group mixture
GradientIdentity == Corrected => GradLHS(ret) = GradRHS(arg.rows)

\* Triggs: J'^T J' = sum_i rho' J_i^T J_i + 2 rho'' J_i^T R_i R_i^T J_i over the rows with rho'' > 0, R_i # 0
TriggsHessian == call = "Triggs" =>
                   HessLHS(ret, MaskedIdx(arg.rows)) = HessRHS(arg.rows, MaskedIdx(arg.rows))

\* ... and Triggs coincides with FastTriggs on all other rows
TriggsElsewhereFast == call = "Triggs" =>
                         \A i \in UnmaskedIdx(arg.rows) : ret[i] = FastRow(arg.rows[i])

\* FastTriggs drops the second-order term: J'^T J' = sum_i rho' J_i^T J_i (docstring of FastTriggs)
FastGaussNewton == call = "FastTriggs" =>
                     HessLHS(ret, AllIdx(arg.rows)) = GNHessRHS(arg.rows, AllIdx(arg.rows))

\* alpha is a root of a^2/2 - a - (rho''/rho') |R|^2 = 0 (docstring of Triggs), and it is the root
\* below zero, so 1 - alpha > 1: the division in R' is safe
AlphaIsRoot == call = "Triggs" =>
  \A i \in MaskedIdx(arg.rows) :
     LET r == arg.rows[i]
         a == Alpha(r) IN
       /\ QSub(QSub(QDiv(QMul(a, a), Two), a), QMul(QDiv(r.g2, r.g1), SqNorm(r.R))) = Zero
       /\ QLt(a, Zero)

\* the masked region is exactly rho'' > 0 and R_i # 0; zero residuals stay zero
ZeroResidualFixed == Corrected =>
  \A i \in 1..Len(ret) : SqNorm(arg.rows[i].R) = Zero => SqNorm(ret[i].R) = Zero

\* ---- Huber
IsHuber == call = "Huber"
HuberRejectsNegative == IsHuber => (ret.ok <=> arg.x[1] >= 0)
HuberTwoPiece  == (IsHuber /\ ret.ok) => (HuberLegal(arg.delta, arg.x, ret.y)
                                          /\ (arg.x # Zero => HuberSlopeLegal(arg.delta, arg.x, ret.g)))
HuberZeroAtZero == (IsHuber /\ arg.x = Zero) => ret.y = Zero
\* continuity of value and slope at the threshold x = delta^2: the two pieces agree there
HuberValueContinuous == IsHuber => HuberLow(QMul(arg.delta, arg.delta)) = HuberHigh(arg.delta, QMul(arg.delta, arg.delta))
HuberSlopeContinuous == IsHuber => HuberSlopeLow = HuberSlopeHigh(arg.delta, QMul(arg.delta, arg.delta))
\* the slope formulas belong to the value formulas: every secant of the upper piece lies between the
\* slopes at its ends, every secant of the lower piece has slope one
HuberSecant == (IsHuber /\ ret.ok) =>
  \A x2 \in HuberXs :
     (QNonNeg(x2) /\ QLt(arg.x, x2)) =>
        LET y2  == HuberDoc(arg.delta, x2)
            sec == QDiv(QSub(y2, ret.y), QSub(x2, arg.x)) IN
          /\ QLe(HuberSlopeDoc(arg.delta, x2), sec)
          /\ (arg.x # Zero => QLe(sec, ret.g))
          /\ (QLe(QSqrt(x2), arg.delta) => sec = One)
\* non-decreasing, finite (a rational), never above the identity
HuberNonDecreasing == (IsHuber /\ ret.ok) =>
  \A x2 \in HuberXs : (QNonNeg(x2) /\ QLe(arg.x, x2)) => QLe(ret.y, HuberDoc(arg.delta, x2))
HuberBelowIdentity == (IsHuber /\ ret.ok) => (QLe(ret.y, arg.x) /\ QNonNeg(ret.y))

TypeOK == /\ call \in {"shape", "residual", "idle", "FastTriggs", "Triggs", "OptStep", "Huber"}
          /\ (call = "Huber") => (arg.kind = "huber")
          /\ Corrected => (arg.kind = "corr" /\ Len(ret) = arg.sh[1])
================================================================================
