\* all 85 x 85 pairs of lshapes of rank <= 3 with extents {0,1,2,3} (7 225 states), every law
SPECIFICATION Spec
CONSTANTS
  MaxRank = 3
  Extents = {0, 1, 2, 3}
  Triples = FALSE
INVARIANT DefinedIffTorch
INVARIANT Symmetric
INVARIANT Idempotent
INVARIANT UnitEmpty
INVARIANT Closed
INVARIANT Absorbs
INVARIANT LeastExpansion
INVARIANT ZeroExtent
INVARIANT ScalarBatch
INVARIANT IndexMapTotal
INVARIANT IndexMapBalanced
INVARIANT IndexMapIdentity
INVARIANT FlatBijective
INVARIANT SchemeIsIndexMap
INVARIANT TypeTable
CHECK_DEADLOCK FALSE
