\* quick: every one-row instance with d, P <= 2 over R in -2..2, J in -1..1, and two-row batches
\* over a reduced lattice; ShapeCodes = 100 N + 10 d + P; rho' = k/4 in {0, 1/4, 9/4};
\* sqrt(1 + 2 c rho''/rho') = k/2 in {3/2, 2}; Huber delta = k/2, inputs x = (k/2)^2, k in 0..14
SPECIFICATION Spec
CONSTANTS
  ShapeCodes = {111, 121, 112, 122, 211}
  RMax = 2
  JMax = 1
  RSmall = {0, 2}
  JSmall = {1}
  Rho1Quarters = {0, 1, 9}
  SqrtHalves = {3, 4}
  HuberDeltaHalves = {1, 2, 3, 4, 6}
  HuberRoots = 14
INVARIANT TypeOK
INVARIANT GradientIdentity
INVARIANT TriggsHessian
INVARIANT TriggsElsewhereFast
INVARIANT FastGaussNewton
INVARIANT AlphaIsRoot
INVARIANT ZeroResidualFixed
INVARIANT HuberRejectsNegative
INVARIANT HuberTwoPiece
INVARIANT HuberZeroAtZero
INVARIANT HuberValueContinuous
INVARIANT HuberSlopeContinuous
INVARIANT HuberSecant
INVARIANT HuberNonDecreasing
INVARIANT HuberBelowIdentity
CHECK_DEADLOCK FALSE
