\* EXPECTED TO BE VIOLATED (KnnfMatchesDef): knn_filter gathering from the radius-filtered array with
\* unfiltered indices -- the defect found on the tree.  Run by the driver as a sensitivity check.
SPECIFICATION Spec
CONSTANTS
  Grid = {0, 1, 2}
  PD = 1
  MaxN = 3
  Ords = {1}
  Radii = {2}
  VoxSizes = {2}
  Gather = "kept"
INVARIANT KnnfMatchesDef
CHECK_DEADLOCK FALSE
