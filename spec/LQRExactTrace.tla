----------------------------- MODULE LQRExactTrace -----------------------------
(* Judges the results (x, u, cost) returned by real LQR / MPC solves.  Events:                  *)
(*   act = "exact": one solve of an integer instance whose optimum TLC computed with            *)
(*      LQRExact (LQRExactGen).  Logged: integer ulp distances (units of eps * scale, capped)    *)
(*      x0 (first state vs x_init), dyn (x_{i+1} vs A_i x_i + B_i u_i + c1_i with the returned    *)
(*      floats, exact arithmetic), sum (reported cost vs the sum of stage costs of the returned   *)
(*      trajectory), xopt / uopt / copt (returned x, u, cost vs the fractions of LQRExact!Solve), *)
(*      and the spec-side flags ok / zerograd / nobetter of that instance.                        *)
(*   act = "big": one solve of a random float instance (n <= 6, T <= 20, batch <= 3, unstable A,  *)
(*      cond(Q) <= 1e6) against the minimiser of the condensed quadratic computed at 60 digits:   *)
(*      uerr / xerr / cerr in ulps of scale, cond = ceil(cond of the condensed Hessian), x0, dyn,  *)
(*      sum as above, worse = 1 if some random perturbation of u lowered the cost by more than      *)
(*      round-off.                                                                                  *)
(*   act = "mpcnl": MPC on a nonlinear system: dyn (returned states vs the nonlinear transition     *)
(*      at stage index i), sum, x0.                                                                 *)
(* A trace is one system object with its successive solves, so the event index is the solve number. *)
EXTENDS Naturals, Integers, Sequences, TLC, Json, IOUtils

Traces == JsonDeserialize(IOEnv.TRACE_FILE)

VARIABLES tid, l, verdict

\* tolerances (integers, ulps of eps * scale).  Measured on the repaired tree: exact instances <= 24,
\* float instances uerr, xerr <= 1.0 * cond; the constants are >= 4x those.
TolExact == 256
TolFeas  == 64
TolBig   == 8       \* uerr, xerr, cerr <= 64 + TolBig * cond   (measured: <= 1.0 * cond, <= 12 for cond < 100)

Clause(e) ==
  CASE e.act = "raise" -> "raised"
    [] e.act = "exact" ->
         CASE ~e.ok -> "instance_not_well_formed"
           [] ~e.zerograd -> "spec_zero_gradient"
           [] ~e.nobetter -> "spec_no_better_neighbour"
           [] ~e.shape -> "shape"
           [] e.x0 > 0 -> "starts_at_x_init"
           [] e.dyn > TolFeas -> "transition"
           [] e.sum > TolFeas -> "cost_is_sum"
           [] e.uopt > TolExact -> "u_optimal"
           [] e.xopt > TolExact -> "x_optimal"
           [] e.copt > TolExact -> "cost_optimal"
           [] OTHER -> "ok"
    [] e.act = "big" ->
         CASE ~e.shape -> "shape"
           [] e.x0 > 0 -> "starts_at_x_init"
           [] e.dyn > TolFeas -> "transition"
           [] e.sum > TolFeas -> "cost_is_sum"
           [] e.uerr > 64 + TolBig * e.cond -> "u_optimal"
           [] e.xerr > 64 + TolBig * e.cond -> "x_optimal"
           [] e.cerr > 64 + TolBig * e.cond -> "cost_optimal"
           [] e.worse > 0 -> "perturbation_lowers_cost"
           [] OTHER -> "ok"
    [] e.act = "mpcnl" ->
         CASE e.x0 > 0 -> "starts_at_x_init"
           [] e.dyn > TolFeas -> "transition"
           [] e.sum > TolFeas -> "cost_is_sum"
           [] OTHER -> "ok"
    [] OTHER -> "unknown_event"

Init == tid \in 1..Len(Traces) /\ l = 1 /\ verdict = "ok"

Next ==
  LET Tr == Traces[tid] IN
  /\ l <= Len(Tr.ev)
  /\ LET cl == Clause(Tr.ev[l]) IN
       /\ verdict' = IF verdict = "ok" /\ cl # "ok" THEN cl \o "@" \o ToString(l) ELSE verdict
       /\ (l = Len(Tr.ev)) => PrintT(<<"VERDICT", tid, verdict'>>)
  /\ l' = l + 1 /\ UNCHANGED tid

Spec == Init /\ [][Next]_<<tid, l, verdict>>
================================================================================
