\* quick: every cloud of 1..3 points on the 3x3 grid, every ordering, every call
SPECIFICATION Spec
CONSTANTS
  Grid = {0, 1, 2}
  PD = 2
  MaxN = 3
  Ords = {1, 2, 0}
  Radii = {0, 1, 2, 3, 4}
  VoxSizes = {1, 2, 3, 4}
  Gather = "all"
INVARIANT PermInv
INVARIANT KnnMatchesDef
INVARIANT KnnCertSound
INVARIANT KnnEquivariant
INVARIANT NbrMatchesDef
INVARIANT NbrEquivariant
INVARIANT KnnfMatchesDef
INVARIANT KnnfSelfAndOthers
INVARIANT KnnfRadiusConsistent
INVARIANT KnnfEquivariant
INVARIANT VoxelMatchesDef
INVARIANT VoxelEquivariant
INVARIANT RandomMatchesDef
CHECK_DEADLOCK FALSE
