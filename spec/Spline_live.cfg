\* every task terminates (sample loops and the counting loop)
SPECIFICATION Spec
CONSTANTS
  NSet = {2,3,4}
  PMax = 1
  MSet = {1,2}
  CntMax = 60
PROPERTY Terminates
CHECK_DEADLOCK FALSE
