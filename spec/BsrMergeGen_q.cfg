\* quick: every pattern pair on 2x2.2x2, 1x3.3x1, 2x1.1x2, 1x2.2x3, 3x2.2x1 block grids
SPECIFICATION Spec
CONSTANTS
  GShapes = {222, 131, 212, 123, 321}
