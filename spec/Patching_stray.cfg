\* observation, not part of the property: nested use leaves the stray module attribute bound (StrayLeak is violated)
SPECIFICATION Spec
CONSTANTS
  MaxDepth = 2
  Points = 2
  HasFinally = TRUE
INVARIANT StrayLeak
CHECK_DEADLOCK FALSE
