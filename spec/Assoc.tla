--------------------------------- MODULE Assoc ---------------------------------
(* The bookkeeping of pypose.metric.ape / rpe (metric/ape_rpe.py) and the angle table *)
(* of pypose.geodesic_loss, over exact integers.                                      *)
(*                                                                                    *)
(*   matching_time_indices : for every stamp of the first list, the nearest stamp of   *)
(*                           the second list, kept when closer than the threshold      *)
(*   pairs_by_frames       : all pairs (i, i+delta)  /  consecutive multiples of delta *)
(*   pairs_by_dist         : pairs by accumulated path length (all / restart mode)     *)
(*   compute_error stats   : Max, Min, Mean, RMSE, SSE of a vector of error norms      *)
(*   geodesic_loss         : rotation angle of R_a R_b^T on the 24 rotations of the    *)
(*                           cube, in units of pi/6:  trace 3,1,0,-1 -> 0,3,4,6        *)
(*                                                                                    *)
(* The operators are shared with AssocTrace / AssocGen.  The state machine enumerates  *)
(* small instances; each task runs the loop of the implementation one element per      *)
(* step and the invariants compare it with the set-theoretic definition.               *)
EXTENDS Naturals, Integers, Sequences, FiniteSets, TLC

CONSTANTS TMax,      \* timestamps range over 0..TMax
          N1Max,     \* length of the first (shorter) stamp list  1..N1Max
          N2Max,     \* length of the second stamp list           1..N2Max
          DSet,      \* association thresholds
          PairN,     \* trajectory lengths for pairing
          PairD,     \* deltas for pairing
          StepSet,   \* path-length steps for distance pairing
          DistNMax,  \* longest trajectory for distance pairing
          EMax,      \* error norms range over 0..EMax
          ENMax      \* number of errors 1..ENMax

VARIABLES task, inp, i, acc, out
vars == <<task, inp, i, acc, out>>

Abs(x) == IF x < 0 THEN 0 - x ELSE x
Min2(a, b) == IF a < b THEN a ELSE b
Range(f) == {f[k] : k \in DOMAIN f}
SetMin(S) == CHOOSE x \in S : \A y \in S : x <= y
SetMax(S) == CHOOSE x \in S : \A y \in S : x >= y
RECURSIVE SeqSum(_)
SeqSum(q) == IF q = <<>> THEN 0 ELSE q[1] + SeqSum(Tail(q))
Ascending(q) == \A k \in 1..(Len(q) - 1) : q[k] < q[k + 1]
\* ascending sequences of length n over S
AscSeqs(S, n) == {q \in [1..n -> S] : Ascending(q)}

\* ------------------------------------------------------------------ association
\* indices are 0-based, as returned by the implementation
MinDist(t, s2) == SetMin({Abs(t - s2[j]) : j \in DOMAIN s2})
Nearest(t, s2) == LET md == MinDist(t, s2) IN {j - 1 : j \in {k \in DOMAIN s2 : Abs(t - s2[k]) = md}}
FirstNearest(t, s2) == SetMin(Nearest(t, s2))
Matched(s1, s2, d) == {k - 1 : k \in {j \in DOMAIN s1 : MinDist(s1[j], s2) < d}}

\* consecutive stamps at least g apart
Separated(q, g) == \A k \in 1..(Len(q) - 1) : q[k + 1] - q[k] >= g

\* (a, b) is an association of s1 with s2 under threshold d:  a enumerates, in order, exactly the
\* stamps of s1 that have a stamp of s2 closer than d, and b[k] is a nearest stamp for a[k]
IsAssoc(s1, s2, d, a, b) ==
  /\ Len(a) = Len(b)
  /\ Ascending(a)
  /\ Range(a) = Matched(s1, s2, d)
  /\ \A k \in 1..Len(a) : b[k] \in Nearest(s1[a[k] + 1], s2)

\* every returned pair is within the threshold (the part common to all association rules)
SoundAssoc(s1, s2, d, a, b) ==
  /\ Len(a) = Len(b)
  /\ \A k \in 1..Len(a) :
       /\ a[k] \in 0..(Len(s1) - 1) /\ b[k] \in 0..(Len(s2) - 1)
       /\ Abs(s1[a[k] + 1] - s2[b[k] + 1]) < d

\* the association as a function of the inputs (lowest index on ties)
RECURSIVE AssocFrom(_, _, _, _)
AssocFrom(s1, s2, d, k) ==
  IF k > Len(s1) THEN <<>>
  ELSE LET md == MinDist(s1[k], s2) IN
       (IF md < d THEN << <<k - 1, SetMin({j - 1 : j \in {x \in DOMAIN s2 : Abs(s1[k] - s2[x]) = md}})>> >>
        ELSE <<>>)
       \o AssocFrom(s1, s2, d, k + 1)
AssocPairs(s1, s2, d) == AssocFrom(s1, s2, d, 1)

\* associate_traj: the shorter list is searched in the longer one (the estimate is the
\* shorter one when lengths are equal); result as pairs <<ref index, est index>>
TrajPairs(rs, es, d) ==
  IF Len(es) > Len(rs)
  THEN AssocPairs(rs, es, d)
  ELSE LET q == AssocPairs(es, rs, d) IN [k \in 1..Len(q) |-> <<q[k][2], q[k][1]>>]

\* ------------------------------------------------------------------ frame pairing (0-based ids)
PairsAllSet(n, dl) == {<<a, a + dl>> : a \in {x \in 0..(n - 1) : x + dl < n}}
PairsStrideSet(n, dl) == {<<k * dl, (k + 1) * dl>> : k \in {x \in 0..n : (x + 1) * dl < n}}
\* the same as sequences ordered by first id (closed forms; the design checks them against the sets)
FramePairs(n, dl, all) ==
  IF all THEN [k \in 1..(IF n > dl THEN n - dl ELSE 0) |-> <<k - 1, k - 1 + dl>>]
  ELSE [k \in 1..((n + dl - 1) \div dl - 1) |-> <<(k - 1) * dl, k * dl>>]

\* ------------------------------------------------------------------ distance pairing
\* cd = accumulated path length at every pose (cd[1] = 0, non-decreasing), 0-based ids
\* all mode: for every i the later pose whose path distance from i is closest to delta,
\* accepted when within tol
DistCands(cd, k, dl) ==
  LET best == SetMin({Abs(cd[j] - cd[k] - dl) : j \in (k + 1)..Len(cd)})
  IN {j \in (k + 1)..Len(cd) : Abs(cd[j] - cd[k] - dl) = best}
DistAllOk(cd, dl, tol, a, b) ==
  /\ Len(a) = Len(b)
  /\ Ascending(a)
  /\ Range(a) = {k - 1 : k \in {x \in 1..(Len(cd) - 1) :
                                  \E j \in DistCands(cd, x, dl) : Abs(cd[j] - cd[x] - dl) <= tol}}
  /\ \A k \in 1..Len(a) : (b[k] + 1) \in DistCands(cd, a[k] + 1, dl)
\* restart mode: walk along the path, record a pose whenever the path since the last recorded
\* pose (or the start) reaches delta; pairs are consecutive recorded poses
RECURSIVE DistMarks(_, _, _, _)
DistMarks(cd, dl, k, from) ==
  IF k > Len(cd) THEN <<>>
  ELSE IF cd[k] - from >= dl THEN <<k - 1>> \o DistMarks(cd, dl, k + 1, cd[k])
  ELSE DistMarks(cd, dl, k + 1, from)
DistStridePairs(cd, dl) ==
  LET mk == DistMarks(cd, dl, 1, 0) IN [k \in 1..(Len(mk) - 1) |-> <<mk[k], mk[k + 1]>>]

\* ------------------------------------------------------------------ statistics (integers)
StMax(e) == SetMax(Range(e))
StMin(e) == SetMin(Range(e))
StSum(e) == SeqSum(e)
StSSE(e) == SeqSum([k \in DOMAIN e |-> e[k] * e[k]])
\* Max >= RMSE >= Mean >= Min >= 0 without square roots or division (n = Len(e)):
\*   n Max^2 >= SSE,   n SSE >= Sum^2,   Sum >= n Min,   Min >= 0
StatsOrdered(e) ==
  LET n == Len(e) IN
    /\ n * StMax(e) * StMax(e) >= StSSE(e)
    /\ n * StSSE(e) >= StSum(e) * StSum(e)
    /\ StSum(e) >= n * StMin(e)
    /\ StMin(e) >= 0
ISqrt(x) == CHOOSE r \in 0..(x + 1) : r * r <= x /\ (r + 1) * (r + 1) > x
IsSquare(x) == ISqrt(x) * ISqrt(x) = x
Norm2(u, v) == (u[1] - v[1]) * (u[1] - v[1]) + (u[2] - v[2]) * (u[2] - v[2])
               + (u[3] - v[3]) * (u[3] - v[3])

\* ------------------------------------------------------------------ rotations of the cube
Perms3 == {p \in [1..3 -> 1..3] : \A x, y \in 1..3 : x # y => p[x] # p[y]}
Signs3 == [1..3 -> {-1, 1}]
SPMat(p, sg) == [r \in 1..3 |-> [c \in 1..3 |-> IF p[r] = c THEN sg[r] ELSE 0]]
Det3(M) == M[1][1] * (M[2][2] * M[3][3] - M[2][3] * M[3][2])
         - M[1][2] * (M[2][1] * M[3][3] - M[2][3] * M[3][1])
         + M[1][3] * (M[2][1] * M[3][2] - M[2][2] * M[3][1])
Rot24 == {M \in {SPMat(p, sg) : p \in Perms3, sg \in Signs3} : Det3(M) = 1}
\* trace of Ra Rb^T
RelTrace(Ra, Rb) ==
  SeqSum([r \in 1..3 |-> Ra[r][1] * Rb[r][1] + Ra[r][2] * Rb[r][2] + Ra[r][3] * Rb[r][3]])
\* rotation angle in units of pi/6:  theta = arccos((trace - 1) / 2)
AngleOfTrace(t) == CASE t = 3 -> 0 [] t = 1 -> 3 [] t = 0 -> 4 [] t = -1 -> 6 [] OTHER -> -1
GeoUnits(Ra, Rb) == AngleOfTrace(RelTrace(Ra, Rb))
MatMulT(Ra, Rb) == [r \in 1..3 |-> [c \in 1..3 |->
                       Ra[r][1] * Rb[c][1] + Ra[r][2] * Rb[c][2] + Ra[r][3] * Rb[c][3]]]

\* ------------------------------------------------------------------ the enumerating machine
Init ==
  /\ i = 1 /\ acc = 0 /\ out = <<>>
  /\ \/ /\ task = "match"
        /\ \E n1 \in 1..N1Max, n2 \in 1..N2Max, d \in DSet :
             \E s1 \in AscSeqs(0..TMax, n1), s2 \in AscSeqs(0..TMax, n2) :
               inp = [s1 |-> s1, s2 |-> s2, d |-> d]
     \/ /\ task = "frames"
        /\ \E n \in PairN, dl \in PairD, all \in BOOLEAN : inp = [n |-> n, dl |-> dl, all |-> all]
     \/ /\ task = "dist"
        /\ \E n \in {x \in PairN : x >= 2 /\ x <= DistNMax}, dl \in PairD, all \in BOOLEAN, tol \in {0, 1} :
             \E st \in [1..(n - 1) -> StepSet] :
               /\ (all \/ tol = 0)
               /\ inp = [cd |-> [k \in 1..n |-> SeqSum(SubSeq(st, 1, k - 1))], dl |-> dl,
                         all |-> all, tol |-> tol]
     \/ /\ task = "stats"
        /\ \E n \in 1..ENMax : \E e \in [1..n -> 0..EMax] : inp = [e |-> e]
     \/ /\ task = "geo"
        /\ \E Ra \in Rot24, Rb \in Rot24 : inp = [a |-> Ra, b |-> Rb]

\* one loop iteration of the implementation per step
Step ==
  /\ \/ /\ task = "match" /\ i <= Len(inp.s1)
        /\ out' = IF MinDist(inp.s1[i], inp.s2) < inp.d
                  THEN Append(out, <<i - 1, FirstNearest(inp.s1[i], inp.s2)>>) ELSE out
        /\ acc' = acc
     \/ /\ task = "frames" /\ inp.all /\ i <= inp.n          \* ids_1 = arange(n); keep ids_2 < n
        /\ out' = IF (i - 1) + inp.dl < inp.n THEN Append(out, <<i - 1, i - 1 + inp.dl>>) ELSE out
        /\ acc' = acc
     \/ /\ task = "frames" /\ ~inp.all /\ i <= inp.n         \* ids = arange(0, n, delta); (ids[:-1], ids[1:])
        /\ out' = IF (i - 1) % inp.dl = 0 /\ (i - 1) > 0
                  THEN Append(out, <<i - 1 - inp.dl, i - 1>>) ELSE out
        /\ acc' = acc
     \/ /\ task = "dist" /\ inp.all /\ i <= Len(inp.cd)       \* all mode: argmin over the later poses
        /\ out' = IF i < Len(inp.cd)
                      /\ Abs(inp.cd[SetMin(DistCands(inp.cd, i, inp.dl))] - inp.cd[i] - inp.dl) <= inp.tol
                  THEN Append(out, <<i - 1, SetMin(DistCands(inp.cd, i, inp.dl)) - 1>>) ELSE out
        /\ acc' = acc
     \/ /\ task = "dist" /\ ~inp.all /\ i <= Len(inp.cd)      \* restart mode: current_path accumulates
        /\ LET step == IF i = 1 THEN 0 ELSE inp.cd[i] - inp.cd[i - 1] IN
             IF acc + step >= inp.dl
             THEN out' = Append(out, i - 1) /\ acc' = 0
             ELSE out' = out /\ acc' = acc + step
     \/ /\ task = "stats" /\ i <= Len(inp.e)                  \* running sum of squares
        /\ acc' = acc + inp.e[i] * inp.e[i] /\ out' = out
     \/ /\ task = "geo" /\ i <= 1
        /\ out' = <<GeoUnits(inp.a, inp.b)>> /\ acc' = acc
  /\ i' = i + 1
  /\ UNCHANGED <<task, inp>>

Done ==
  CASE task = "match"  -> i > Len(inp.s1)
    [] task = "frames" -> i > inp.n
    [] task = "dist"   -> i > Len(inp.cd)
    [] task = "stats"  -> i > Len(inp.e)
    [] task = "geo"    -> i > 1

Finished == Done /\ UNCHANGED vars
Next == Step \/ Finished
Spec == Init /\ [][Next]_vars /\ WF_vars(Step)

\* ------------------------------------------------------------------ properties
Firsts(q) == [k \in 1..Len(q) |-> q[k][1]]
Seconds(q) == [k \in 1..Len(q) |-> q[k][2]]

\* --- association
MatchSound ==
  task = "match" => SoundAssoc(inp.s1, inp.s2, inp.d, Firsts(out), Seconds(out))
MatchComplete ==
  (task = "match" /\ Done) =>
      /\ IsAssoc(inp.s1, inp.s2, inp.d, Firsts(out), Seconds(out))
      /\ out = AssocPairs(inp.s1, inp.s2, inp.d)
\* nearest-neighbour matching of sorted lists never goes back in time
MatchMonotone ==
  task = "match" => \A k \in 1..(Len(out) - 1) :
      (Cardinality(Nearest(inp.s1[out[k][1] + 1], inp.s2)) = 1
       /\ Cardinality(Nearest(inp.s1[out[k + 1][1] + 1], inp.s2)) = 1) => out[k][2] <= out[k + 1][2]
\* stamps of the first list at least 2d apart: a partial injection in time order
MatchInjective ==
  (task = "match" /\ Separated(inp.s1, 2 * inp.d)) =>
      \A k \in 1..(Len(out) - 1) : out[k][2] < out[k + 1][2]
\* stamps of the searched list at least 2d apart: a stamp within the threshold has no tie
MatchNoTies ==
  (task = "match" /\ Separated(inp.s2, 2 * inp.d)) =>
      \A k \in 1..Len(out) : Cardinality(Nearest(inp.s1[out[k][1] + 1], inp.s2)) = 1
\* both lists at least 2d apart: the association does not depend on which list is searched
MatchSymmetric ==
  (task = "match" /\ Done /\ Separated(inp.s1, 2 * inp.d) /\ Separated(inp.s2, 2 * inp.d)) =>
      {<<p[2], p[1]>> : p \in Range(AssocPairs(inp.s2, inp.s1, inp.d))} = Range(out)

\* --- frame pairing
FramePairsAll ==
  (task = "frames" /\ inp.all /\ Done) =>
      /\ Range(out) = PairsAllSet(inp.n, inp.dl)
      /\ out = FramePairs(inp.n, inp.dl, TRUE)
      /\ Len(out) = (IF inp.n > inp.dl THEN inp.n - inp.dl ELSE 0)
FramePairsStride ==
  (task = "frames" /\ ~inp.all /\ Done) =>
      /\ Range(out) = PairsStrideSet(inp.n, inp.dl)
      /\ out = FramePairs(inp.n, inp.dl, FALSE)
      /\ Len(out) = (inp.n + inp.dl - 1) \div inp.dl - 1
      /\ Range(out) \subseteq PairsAllSet(inp.n, inp.dl)
      /\ \A k \in 1..(Len(out) - 1) : out[k][2] = out[k + 1][1]        \* a chain from pose 0
      /\ (Len(out) > 0 => out[1][1] = 0)
FramePairsInRange ==
  task = "frames" => \A k \in 1..Len(out) :
      out[k][1] >= 0 /\ out[k][2] < inp.n /\ out[k][2] - out[k][1] = inp.dl

\* --- distance pairing
DistStride ==
  (task = "dist" /\ ~inp.all /\ Done) =>
      /\ out = DistMarks(inp.cd, inp.dl, 1, 0)
      /\ \A k \in 1..Len(out) :       \* each recorded pose is the first one at path distance >= delta
           LET prev == IF k = 1 THEN 0 ELSE out[k - 1] IN   \* from the previous recorded pose (or the start)
             /\ out[k] > prev
             /\ inp.cd[out[k] + 1] - inp.cd[prev + 1] >= inp.dl
             /\ \A j \in (prev + 1)..(out[k] - 1) : inp.cd[j + 1] - inp.cd[prev + 1] < inp.dl
      /\ \A j \in 0..(Len(inp.cd) - 1) :                 \* and none is missed after the last one
           LET prev == IF out = <<>> THEN 0 ELSE out[Len(out)] IN
             j > prev => inp.cd[j + 1] - inp.cd[prev + 1] < inp.dl
DistAll ==
  (task = "dist" /\ inp.all /\ Done) =>
      /\ DistAllOk(inp.cd, inp.dl, inp.tol, Firsts(out), Seconds(out))
      /\ \A k \in 1..Len(out) :
           /\ out[k][2] > out[k][1]
           /\ Abs(inp.cd[out[k][2] + 1] - inp.cd[out[k][1] + 1] - inp.dl) <= inp.tol
      /\ \A a \in 0..(Len(inp.cd) - 2) :                 \* complete: a pose with a partner within tol is paired
           (\E b \in (a + 1)..(Len(inp.cd) - 1) : Abs(inp.cd[b + 1] - inp.cd[a + 1] - inp.dl) <= inp.tol)
             => a \in Range(Firsts(out))

\* --- statistics
StatsOrdering ==
  (task = "stats" /\ Done) => /\ acc = StSSE(inp.e)
                              /\ StatsOrdered(inp.e)
StatsZero ==
  (task = "stats" /\ Done) =>
      ((\A k \in DOMAIN inp.e : inp.e[k] = 0) <=> (StMax(inp.e) = 0 /\ StSSE(inp.e) = 0 /\ StSum(inp.e) = 0))

\* --- geodesic angle on the rotations of the cube
GeoTable ==
  task = "geo" =>
      /\ GeoUnits(inp.a, inp.b) \in {0, 3, 4, 6}
      /\ GeoUnits(inp.a, inp.b) = GeoUnits(inp.b, inp.a)
      /\ (GeoUnits(inp.a, inp.b) = 0 <=> inp.a = inp.b)
      /\ MatMulT(inp.a, inp.b) \in Rot24
      \* unchanged by a common rotation on the right:  angle(a b^T, b b^T) = angle(a, b)
      /\ GeoUnits(MatMulT(inp.a, inp.b), MatMulT(inp.b, inp.b)) = GeoUnits(inp.a, inp.b)
GeoCount == Cardinality(Rot24) = 24

Terminates == <>Done
================================================================================
