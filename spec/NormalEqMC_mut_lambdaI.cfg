SPECIFICATION Spec
CONSTANTS
  Mode = "num"
  MaxP = 1
  MaxB = 1
  Ty = "SE3"
  NumBig = FALSE
  Mut = "lambda_identity"
INVARIANT ColumnPartition
INVARIANT SplitIsPartition
INVARIANT LayoutProjection
INVARIANT RowPartition
INVARIANT WeightExpansion
INVARIANT TilingOnDocumentedShapes
INVARIANT LMDiagonalClosedForm
INVARIANT LMSymmetric
INVARIANT LMIsNewtonOnQuadraticModel
INVARIANT LMClampBounds
INVARIANT GNConsistentSystemIsSolved
INVARIANT GNNormalFormMinimises
INVARIANT LMUndampedIsGN
INVARIANT RetractionIsLeftTranslation
INVARIANT FirstOrderIsNotAddition
CHECK_DEADLOCK FALSE
