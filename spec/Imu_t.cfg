\* thorough: F <= 12, B <= 3
SPECIFICATION Spec
CONSTANTS
  MaxF = 12
  MaxB = 3
  RotLeft = FALSE
  CovLeft = FALSE
  InitOnLeft = TRUE
  GravPost = TRUE
  KeepHist = TRUE
INVARIANT TypeOK
INVARIANT BufferIsFold
INVARIANT BufferCovIsFold
INVARIANT OutputIsFold
INVARIANT OutputCovIsFold
INVARIANT ScanLength
INVARIANT ScanSound
INVARIANT HistIsChunking
CHECK_DEADLOCK FALSE
