\* quick: chspline N = 2..4, bspline N = 4 (2..4 extrapolated), points in -2..2, intervals 1/2, 1/4, 1/8
SPECIFICATION Spec
CONSTANTS
  NSet = {2,3,4}
  PMax = 2
  MSet = {1,2,3}
  CntMax = 100
INVARIANT ChInterpolates
INVARIANT ChSegmentIndependent
INVARIANT ChLines
INVARIANT ChQuadraticsInterior
INVARIANT ChSampleCount
INVARIANT ChSegmentsValid
INVARIANT BasisContinuity
INVARIANT BasisUnitSpeed
INVARIANT BsContinuous
INVARIANT BsLines
INVARIANT BsEnds
INVARIANT BsEquivariant
INVARIANT BsSampleCount
INVARIANT CntIsCeil
INVARIANT CntDyadic
CHECK_DEADLOCK FALSE
