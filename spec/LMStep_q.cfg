\* quick: LM x three strategies x reject 0..4 x 4 calls, GN x 4 calls; every environment choice
\* (solver ok | raise, loss Better | Equal | Worse, quality Very | Successful | Unsuccessful) per trial
SPECIFICATION Spec
CONSTANTS
  Algos = {"LM", "GN"}
  Strategies = {"Constant", "Adaptive", "TrustRegion"}
  RejectSet = {0, 1, 2, 3, 4}
  HyperSet <- HyperQuick
  MaxCalls = 4
  Variant = "code"
INVARIANT TypeOK
INVARIANT ReturnedLossIsTrueLoss
INVARIANT CacheCoherent
INVARIANT NotWorseUnlessExhausted
INVARIANT LastIsGivenLoss
INVARIANT TrialsStartFromGiven
INVARIANT SolverRaiseRestores
INVARIANT TrialsBounded
INVARIANT FirstIterationAlways
INVARIANT RejectCountIsRejections
INVARIANT DampingWithinBounds
INVARIANT GNReturnsNewRecordsPrevious
PROPERTY RejectedTrialRestores
PROPERTY DampingMoves
CHECK_DEADLOCK FALSE
