SPECIFICATION Spec
INVARIANT RegimeTotal
INVARIANT RegimeContinuity
INVARIANT ModelMeetsTolerance
INVARIANT OldModelOutsideBand
INVARIANT OldBandWasPredicted
INVARIANT RepairCoversOldBand
INVARIANT RepairNoWorse
CHECK_DEADLOCK FALSE
