SPECIFICATION Spec
INVARIANT RegimeTotal
INVARIANT RegimeContinuity
INVARIANT ModelMeetsToleranceOutsideBand
INVARIANT BandIsPredicted
CHECK_DEADLOCK FALSE
