\* as SysTime_hist with three time values (thorough tier)
SPECIFICATION Spec
CONSTANTS
  Classes = {"LTI", "LTV", "NLS"}
  TimeVals = {0, 2, 5}
  MaxLen = 6
  KeepHist = TRUE
  Rich = FALSE
  ProgIds = {1}
  AliasRefTime = FALSE
CONSTRAINT Bound
INVARIANT TypeOK
INVARIANT TimeIsFold
INVARIANT OutputsAtPreIncrement
INVARIANT RefIsArgsOrRecent
INVARIANT LinAtRef
PROPERTY ForwardByOne
PROPERTY SettersSet
PROPERTY OthersKeepTime
PROPERTY RefOnlyBySetRefpoint
CHECK_DEADLOCK FALSE
