\* thorough table: 3-point clouds (with repeats) and 4/5/6-point sets over 8 points; 12 rotations; scales 1, 1/2;
\* exact + alternating noise
SPECIFICATION Spec
CONSTANTS
  P3 = {0, 1, 10, 100, 110, 111, 200, 211}
  P4 = {0, 1, 10, 11, 100, 110, 111, 200}
  P5 = {0, 1, 10, 11, 100, 110, 111, 200}
  P6 = {0, 1, 10, 11, 100, 101, 110, 111}
  MultiSizes = {3}
  UnitKinds = {"axis", "half"}
  TransCodes = {638}
  ScaleHalves = {1, 2}
  NoiseKinds = {"none", "alt"}
