\* thorough: exact CG (tol = 2^-10) on every SPD matrix of order 2..3 with entries -3..3; rhs 0, e_k, (1..1); M none or any SPD matrix with entries -1..1
SPECIFICATION Spec
CONSTANTS
  Mode = "cg"
  Dims = {2,3}
  EMax = 3
  BMax = 1
  BUnit = TRUE
  LDims = {}
  LMax = 0
  UseX0 = FALSE
  X0Max = 0
  PrecMax = 0
  PrecFull = TRUE
  TolD = 1024
INVARIANT ResidualIsTrue
INVARIANT IterBound
INVARIANT ZeroResidualAtN
INVARIANT ResidualOrthP
INVARIANT ReturnMeetsTol
INVARIANT ExactWhenZero
INVARIANT ZeroRhs
INVARIANT RunAgrees
CHECK_DEADLOCK FALSE
