------------------------------- MODULE LQRTime -------------------------------
(* The order in which one LQR solve (pypose.module.LQR.forward) and MPC.forward touch    *)
(* the system object, and the TIME INDEX each stage of each pass sees.                   *)
(*                                                                                       *)
(* One solve with horizon T (structure of lqr_backward / runsys / lqr_forward):           *)
(*   Begin                                                                                *)
(*   Rollout   stages 0..T-2 : system(x_i, u_i)      -- a system call, sees the counter   *)
(*   Backward  stages T-2..0 : set_refpoint(x_i, u_i, t = i); read A, B                   *)
(*                             (LTV: set_refpoint moves the counter to i; NLS: A, B are   *)
(*                              evaluated at the reference time i; LTI: time-free)        *)
(*   Forward   stages 0..T-1 : system(x_i, u_i)      -- a system call, sees the counter   *)
(*   End                                                                                  *)
(* MPC.forward = k >= 0 solves inside the stepper loop + one final solve, back to back.   *)
(* Between solves the user may call the system, reset it, or assign its time.             *)
(*                                                                                       *)
(* The property (StageUsesOwnIndex): in every pass of every solve, stage i evaluates the  *)
(* dynamics at time index i, whatever happened on the system object before.               *)
(* Documented behaviour (Deviation = FALSE): both passes that call the system start at    *)
(* time 0.  Named deviation StaleStart (Deviation = TRUE) models the code as it is on the  *)
(* unrepaired tree: the passes start at whatever the counter happens to be.                *)
(*                                                                                       *)
(* The transition function StepEv over the event alphabet                                  *)
(*   begin | call | ref(targ) | lin | end | user(op, v) | mpc_begin(n) | mpc_end           *)
(* is shared with LQRTimeTrace, which validates event logs of real solves.                 *)
EXTENDS Naturals, Integers, Sequences, FiniteSets, TLC

CONSTANTS Classes,     \* subset of {"LTI", "LTV", "NLS"}
          Horizons,    \* set of T
          MaxSolves,   \* bound on solves in a history
          MaxUser,     \* bound on user calls in a history
          TimeVals,    \* values for user reset / systime assignment
          Deviation    \* FALSE: documented;  TRUE: StaleStart (the code as it is)

VARIABLES cls, T,
          t,        \* system counter
          pc,       \* "idle" | "rollout" | "backward" | "forward"
          k,        \* events of the current pass done (calls / refs / calls)
          rt,       \* reference time of the open backward stage
          solves,   \* solves begun so far
          users,    \* user calls so far
          mpc,      \* solves still to run back to back inside MPC.forward (0 = not inside)
          ev        \* the last event with what it saw: [kind, solve, pass, stage, ts]

vars == <<cls, T, t, pc, k, rt, solves, users, mpc, ev>>

NoEv == [kind |-> "none", solve |-> 0, pass |-> "", stage |-> 0, ts |-> 0]

\* ---------------------------------------------------------------- transition function
\* s = [t, pc, k, rt];  e = [kind, targ, op, v];  result [s, pass, stage, ts, err]
\* ts = the time index at which the dynamics are evaluated by this event (-1: none)
St == [t |-> t, pc |-> pc, k |-> k, rt |-> rt]
InitS == [t |-> 0, pc |-> "idle", k |-> 0, rt |-> 0]
R(s, pass, stage, ts, err) == [s |-> s, pass |-> pass, stage |-> stage, ts |-> ts, err |-> err]
Start(dev, tt) == IF dev THEN tt ELSE 0        \* where a pass that calls the system starts

StepEv(cl, H, dev, s, e) ==
  CASE e.kind = "begin" ->
         IF s.pc # "idle" THEN R(s, "", 0, -1, "begin_inside_solve")
         ELSE R([s EXCEPT !.pc = "rollout", !.k = 0, !.t = Start(dev, s.t)], "begin", 0, -1, "ok")
    [] e.kind = "call" ->
         CASE s.pc = "rollout" /\ s.k < H - 1 ->
                R([s EXCEPT !.t = s.t + 1, !.k = s.k + 1], "rollout", s.k, s.t, "ok")
           [] (s.pc = "rollout" /\ H = 1) \/ s.pc = "backward" ->     \* first call of the forward pass
                LET t0 == Start(dev, s.t) IN
                R([s EXCEPT !.pc = "forward", !.t = t0 + 1, !.k = 1], "forward", 0, t0, "ok")
           [] s.pc = "forward" /\ s.k < H ->
                R([s EXCEPT !.t = s.t + 1, !.k = s.k + 1], "forward", s.k, s.t, "ok")
           [] s.pc = "idle" -> R([s EXCEPT !.t = s.t + 1], "user", 0, -1, "ok")
           [] OTHER -> R([s EXCEPT !.t = s.t + 1], "", 0, -1, "unexpected_system_call")
    [] e.kind = "ref" ->
         LET s1 == IF cl = "LTV" THEN [s EXCEPT !.t = e.targ] ELSE s IN
         \* The linearisation pass: any number of set_refpoint(t = stage) calls, in ANY order of the stages 0..H-2
         \* (the action BackwardRef below takes them in descending order, as the code does today; a solver that linearises
         \* in ascending order before its Riccati sweep, or once for a time-invariant system, is the same design as far as
         \* the property goes - found by a behaviour-preserving refactoring).  The stage of a linearisation is the one it
         \* names; what is judged is that the dynamics it reads are those of that stage.
         CASE (s.pc = "rollout" /\ s.k = H - 1 /\ H >= 2) \/ s.pc = "backward" ->
                IF e.targ < 0 \/ e.targ > H - 2 THEN R(s1, "", 0, -1, "refpoint_outside_horizon")
                ELSE R([s1 EXCEPT !.pc = "backward", !.k = (IF s.pc = "backward" THEN s.k ELSE 0) + 1, !.rt = e.targ],
                       "backward", e.targ, -1, "ok")
           [] s.pc = "idle" -> R(s1, "user", 0, -1, "ok")
           [] OTHER -> R(s1, "", 0, -1, "unexpected_set_refpoint")
    [] e.kind = "lin" ->
         IF s.pc = "backward" /\ s.k >= 1
         THEN R(s, "backward", s.rt, IF cl = "LTV" THEN s.t ELSE s.rt, "ok")
         ELSE IF s.pc = "idle" THEN R(s, "user", 0, -1, "ok")
         ELSE R(s, "", 0, -1, "unexpected_linearisation_read")
    [] e.kind = "end" ->
         IF s.pc = "forward" /\ s.k = H THEN R([s EXCEPT !.pc = "idle", !.k = 0], "end", 0, -1, "ok")
         ELSE R([s EXCEPT !.pc = "idle", !.k = 0], "end", 0, -1, "incomplete_solve")
    [] e.kind = "user" ->
         IF s.pc # "idle" THEN R(s, "", 0, -1, "user_call_inside_solve")
         ELSE R([s EXCEPT !.t = e.v], "user", 0, -1, "ok")
    [] OTHER -> R(s, "", 0, -1, "ok")

Ev(kind, targ, v) == [kind |-> kind, targ |-> targ, v |-> v]

\* ---------------------------------------------------------------- state machine
Init ==
  /\ cls \in Classes /\ T \in Horizons
  /\ t = 0 /\ pc = "idle" /\ k = 0 /\ rt = 0
  /\ solves = 0 /\ users = 0 /\ mpc = 0 /\ ev = NoEv

Do(e) ==
  LET r == StepEv(cls, T, Deviation, St, e) IN
  /\ r.err = "ok"
  /\ t' = r.s.t /\ pc' = r.s.pc /\ k' = r.s.k /\ rt' = r.s.rt
  /\ ev' = [kind |-> e.kind, solve |-> IF e.kind = "begin" THEN solves + 1 ELSE solves,
            pass |-> r.pass, stage |-> r.stage, ts |-> r.ts]
  /\ UNCHANGED <<cls, T>>

\* user calls between solves
UserForward    == pc = "idle" /\ mpc = 0 /\ users < MaxUser /\ Do(Ev("call", 0, 0))
                  /\ users' = users + 1 /\ UNCHANGED <<solves, mpc>>
UserReset      == \E v \in TimeVals : pc = "idle" /\ mpc = 0 /\ users < MaxUser /\ Do(Ev("user", 0, v))
                  /\ users' = users + 1 /\ UNCHANGED <<solves, mpc>>
UserSetSystime == UserReset      \* same effect on the counter (C15): reset(v) / systime = v

\* MPC.forward: n solves back to back (n - 1 in the stepper loop, one final)
MpcBegin == \E n \in 1..(MaxSolves - solves) :
              pc = "idle" /\ mpc = 0 /\ mpc' = n /\ UNCHANGED <<cls, T, t, pc, k, rt, solves, users, ev>>

Begin    == pc = "idle" /\ solves < MaxSolves /\ Do(Ev("begin", 0, 0))
            /\ solves' = solves + 1 /\ UNCHANGED <<users, mpc>>
\* Rollout / Forward: a system call made by the solver
RolloutCall == pc = "rollout" /\ k < T - 1 /\ Do(Ev("call", 0, 0)) /\ UNCHANGED <<solves, users, mpc>>
\* Backward: set_refpoint(t = stage) then the reads of A and B
BackwardRef == /\ \/ (pc = "rollout" /\ k = T - 1 /\ T >= 2)
                  \/ (pc = "backward" /\ k < T - 1 /\ ev.kind = "lin")
               /\ LET stage == IF pc = "rollout" THEN T - 2 ELSE T - 2 - k IN Do(Ev("ref", stage, 0))
               /\ UNCHANGED <<solves, users, mpc>>
BackwardLin == pc = "backward" /\ ev.kind = "ref" /\ Do(Ev("lin", 0, 0)) /\ UNCHANGED <<solves, users, mpc>>
ForwardCall == /\ \/ (pc = "rollout" /\ T = 1)
                  \/ (pc = "backward" /\ k = T - 1 /\ ev.kind = "lin")
                  \/ (pc = "forward" /\ k < T)
               /\ Do(Ev("call", 0, 0)) /\ UNCHANGED <<solves, users, mpc>>
End      == pc = "forward" /\ k = T /\ Do(Ev("end", 0, 0))
            /\ mpc' = (IF mpc > 0 THEN mpc - 1 ELSE 0) /\ UNCHANGED <<solves, users>>

Next == UserForward \/ UserReset \/ MpcBegin \/ Begin \/ RolloutCall \/ BackwardRef \/ BackwardLin \/ ForwardCall \/ End
Spec == Init /\ [][Next]_vars

\* ---------------------------------------------------------------- properties
TypeOK == /\ pc \in {"idle", "rollout", "backward", "forward"} /\ k \in 0..T /\ t \in Nat
          /\ solves \in 0..MaxSolves /\ users \in 0..MaxUser /\ mpc \in 0..MaxSolves

\* The property: in every pass of every solve, stage i evaluates the dynamics at time index i
\* (for LTI the dynamics do not depend on the time: vacuous).
StageUsesOwnIndex ==
  (cls # "LTI" /\ ev.pass \in {"rollout", "backward", "forward"} /\ ev.ts >= 0) => ev.ts = ev.stage

\* every solve makes T-1 roll-out calls, T-1 linearisations (descending) and T forward calls
PassLengths ==
  /\ (pc = "backward" => k \in 1..(T - 1))
  /\ (ev.kind = "end" => pc = "idle")
  /\ (ev.pass = "backward" => ev.stage \in 0..(T - 2))
  /\ (ev.pass = "rollout" => ev.stage \in 0..(T - 2))
  /\ (ev.pass = "forward" => ev.stage \in 0..(T - 1))
\* no user call lands inside MPC.forward
MpcAtomic == [][(mpc > 0 /\ mpc' > 0) => users' = users]_vars
================================================================================
