\* every cloud of 1..3 points on the 3x3 grid, every ordering
SPECIFICATION Spec
CONSTANTS
  GGrid = {0, 1, 2}
  GPD = 2
  GMaxN = 3
  GOrds = {1, 2, 0}
  GRadii = {1, 2, 3}
  GVox = {1, 2, 3}
