\* thorough: every pattern pair on 2x4 . 4x2 block grids (2^8 x 2^8 pairs)
SPECIFICATION Spec
CONSTANTS
  SM = 2
  SN = 4
  SP = 2
INVARIANT K2InRange
INVARIANT HitsAreMatches
INVARIANT VisitsExactly
INVARIANT IndexConsistent
INVARIANT RunAgrees
CHECK_DEADLOCK FALSE
