\* documented behaviour: every history of <= 3 solves (plain or inside MPC.forward) interleaved with <= 3 user
\* calls (system call, reset / systime assignment to {0,2,5}), T in 1..4, LTI / LTV / NLS
SPECIFICATION Spec
CONSTANTS
  Classes = {"LTI", "LTV", "NLS"}
  Horizons = {1, 2, 3, 4}
  MaxSolves = 3
  MaxUser = 3
  TimeVals = {0, 2, 5}
  Deviation = FALSE
INVARIANT TypeOK
INVARIANT StageUsesOwnIndex
INVARIANT PassLengths
PROPERTY MpcAtomic
CHECK_DEADLOCK FALSE
