------------------------------- MODULE SysTime -------------------------------
(* The system time counter of pypose.module.dynamics (System / LTI / LTV / NLS) and    *)
(* what the dynamics compute at it.                                                    *)
(*                                                                                     *)
(* One action per public call of a system object:                                      *)
(*   Forward(x, u)      system(x, u): outputs are computed at the PRE-increment time,   *)
(*                      then the forward hook adds one;                                *)
(*   Reset(v)           system.reset(v) (reset() is Reset(0));                         *)
(*   SetSystime(v)      system.systime = v;                                            *)
(*   SetRefpoint(x,u,v) LTI: no effect.  LTV: the time becomes v (unchanged without v;   *)
(*                      "the most recent timestamp is taken", as documented).  NLS:     *)
(*                      the reference triple becomes the given                          *)
(*                      arguments, a missing one is the most recent state / input /     *)
(*                      system time; the time is unchanged.                            *)
(* LTI/LTV data are integer matrices (LTV: one per time index); an NLS is a polynomial  *)
(* program: f and g are tuples of polynomials, a polynomial is a sequence of monomials  *)
(* [c |-> coefficient, e |-> exponents of x_1..x_n, u_1..u_m, t].  A, B, C, D are       *)
(* obtained by SYMBOLIC partial differentiation (Diff) and evaluation at the reference  *)
(* point, c1 = f(xr,ur,tr) - A xr - B ur, c2 likewise.                                  *)
(*                                                                                     *)
(* The transition function StepSys is shared with SysTimeTrace (recorded executions of  *)
(* the real objects) and SysTimeGen (tabulated transitions replayed on real objects).   *)
EXTENDS Naturals, Integers, Sequences, FiniteSets, TLC

CONSTANTS Classes,    \* subset of {"LTI", "LTV", "NLS"}
          TimeVals,   \* values handed to reset / systime assignment / set_refpoint(t=)
          MaxLen,     \* bound on the number of calls in a behaviour
          KeepHist,   \* TRUE: keep the call history (statement-level invariant TimeIsFold)
          Rich,       \* TRUE: two data points and every optional-argument pattern
          ProgIds,    \* which polynomial programs an NLS may be (indices into DemoProgs; {0} / {99} = the grammar)
          AliasRefTime \* FALSE = documented behaviour.  TRUE = named deviation: the reference time of
                      \* NLS.set_refpoint(t=None) is the live counter, not its value at the call

VARIABLES cls,      \* system class
          sys,      \* LTI/LTV: matrix stacks; NLS: polynomial program
          t,        \* system time
          last,     \* NLS: most recent state/input handed to Forward (option)
          ref,      \* NLS: reference point (option)
          out,      \* result of the last call if it was Forward (option): time used, next state, observation
          hist,     \* call history (<<>> unless KeepHist)
          n,        \* number of calls so far
          lastAct   \* the last call (record), "init" before the first one

vars == <<cls, sys, t, last, ref, out, hist, n, lastAct>>

\* ---------------------------------------------------------------- options, vectors, matrices
None      == <<>>
Some(v)   == <<v>>
IsSome(o) == Len(o) = 1

RECURSIVE DotR(_, _, _)
DotR(a, b, k) == IF k = 0 THEN 0 ELSE a[k] * b[k] + DotR(a, b, k - 1)
Dot(a, b)     == DotR(a, b, Len(a))
\* TLC's [i \in 1..n |-> e] is a lazy closure whose body is re-evaluated at every application; tuples built
\* with Append are concrete.  Every vector / matrix below is built with Tup.
RECURSIVE Tup(_, _)
Tup(F(_), k)  == IF k = 0 THEN <<>> ELSE Append(Tup(F, k - 1), F(k))
MV(M, v)      == Tup(LAMBDA i : Dot(M[i], v), Len(M))
VAdd(a, b)    == Tup(LAMBDA i : a[i] + b[i], Len(a))
VSub(a, b)    == Tup(LAMBDA i : a[i] - b[i], Len(a))
VScale(s, a)  == Tup(LAMBDA i : s * a[i], Len(a))
Affine(M, x, N, u, c) == VAdd(VAdd(MV(M, x), MV(N, u)), c)
Max2(a, b)    == IF a > b THEN a ELSE b

\* ---------------------------------------------------------------- polynomial programs
RECURSIVE PowI(_, _)
PowI(b, k) == IF k = 0 THEN 1 ELSE b * PowI(b, k - 1)
RECURSIVE ProdPow(_, _, _)
ProdPow(e, p, k) == IF k = 0 THEN 1 ELSE PowI(p[k], e[k]) * ProdPow(e, p, k - 1)
MonoVal(mo, p)   == mo.c * ProdPow(mo.e, p, Len(p))
RECURSIVE PolyValR(_, _, _)
PolyValR(po, p, k) == IF k = 0 THEN 0 ELSE MonoVal(po[k], p) + PolyValR(po, p, k - 1)
PolyVal(po, p)   == PolyValR(po, p, Len(po))
FVal(F, p)       == Tup(LAMBDA i : PolyVal(F[i], p), Len(F))

\* symbolic partial derivative of a polynomial with respect to variable k
DMono(mo, k) == [c |-> mo.c * mo.e[k], e |-> [mo.e EXCEPT ![k] = @ - 1]]
Diff(po, k)  == LET nz == SelectSeq(po, LAMBDA mo : mo.e[k] > 0)
                IN  Tup(LAMBDA i : DMono(nz[i], k), Len(nz))

Point(x, u, tt) == x \o u \o <<tt>>
\* Jacobian of the tuple F with respect to variables lo..hi, evaluated at p
Jac(F, lo, hi, p) == Tup(LAMBDA i : Tup(LAMBDA j : PolyVal(Diff(F[i], lo + j - 1), p), hi - lo + 1), Len(F))

\* the affine model of program pr at the point (x, u, tj) with the reference values f0, g0
Model(pr, x, u, tj, f0, g0) ==
  LET p == Point(x, u, tj)
      A == Jac(pr.f, 1, pr.n, p)         B == Jac(pr.f, pr.n + 1, pr.n + pr.m, p)
      C == Jac(pr.g, 1, pr.n, p)         D == Jac(pr.g, pr.n + 1, pr.n + pr.m, p)
  IN  [A |-> A, B |-> B, C |-> C, D |-> D,
       c1 |-> VSub(f0, VAdd(MV(A, x), MV(B, u))),
       c2 |-> VSub(g0, VAdd(MV(C, x), MV(D, u)))]

\* what the properties A, B, C, D, c1, c2 are documented to return for reference point r
Lin(pr, r) == Model(pr, r.x, r.u, r.t, FVal(pr.f, Point(r.x, r.u, r.t)), FVal(pr.g, Point(r.x, r.u, r.t)))

\* exact Taylor remainder of a polynomial of (x,u)-degree <= 3 for a displacement d of (x, u):
\*   6 (F(p + d) - F(p) - grad F(p) . d) = 3 d'H d + D3F[d, d, d]
\* H and D3F are evaluated once from the second / third symbolic derivatives.
RECURSIVE SumF(_, _)
SumF(F(_), k) == IF k = 0 THEN 0 ELSE F(k) + SumF(F, k - 1)
Hess(po, p, k)  == Tup(LAMBDA j : Tup(LAMBDA l : PolyVal(Diff(Diff(po, j), l), p), k), k)
Third(po, p, k) == Tup(LAMBDA j : Tup(LAMBDA l : Tup(LAMBDA q : PolyVal(Diff(Diff(Diff(po, j), l), q), p), k), k), k)
Quad(Hm, d, k)  == SumF(LAMBDA j : SumF(LAMBDA l : Hm[j][l] * d[j] * d[l], k), k)
Cubic(Tm, d, k) == SumF(LAMBDA j : SumF(LAMBDA l : SumF(LAMBDA q : Tm[j][l][q] * d[j] * d[l] * d[q], k), k), k)
Shift(p, d) == Tup(LAMBDA i : IF i <= Len(d) THEN p[i] + d[i] ELSE p[i], Len(p))

\* error of the affine model mdl at the displaced point, component i of f
AffineErrF(pr, r, mdl, d, i) ==
  LET p  == Point(r.x, r.u, r.t)
      dx == SubSeq(d, 1, pr.n)   du == SubSeq(d, pr.n + 1, pr.n + pr.m)
  IN  PolyVal(pr.f[i], Shift(p, d))
        - Affine(mdl.A, VAdd(r.x, dx), mdl.B, VAdd(r.u, du), mdl.c1)[i]
AffineErrG(pr, r, mdl, d, i) ==
  LET p  == Point(r.x, r.u, r.t)
      dx == SubSeq(d, 1, pr.n)   du == SubSeq(d, pr.n + 1, pr.n + pr.m)
  IN  PolyVal(pr.g[i], Shift(p, d))
        - Affine(mdl.C, VAdd(r.x, dx), mdl.D, VAdd(r.u, du), mdl.c2)[i]

\* ---------------------------------------------------------------- the grammar of programs
CoefMax == 3      \* |coefficient| <= CoefMax
DegXU   == 3      \* total degree in (x, u)
DegT    == 2      \* degree in t
RECURSIVE SumSeq(_, _)
SumSeq(s, k) == IF k = 0 THEN 0 ELSE s[k] + SumSeq(s, k - 1)
MonoOK(mo, nv) ==
  /\ mo.c \in (-CoefMax)..CoefMax /\ mo.c # 0
  /\ Len(mo.e) = nv + 1
  /\ \A k \in 1..(nv + 1) : mo.e[k] \in 0..DegXU
  /\ SumSeq(mo.e, nv) <= DegXU /\ mo.e[nv + 1] <= DegT
PolyOK(po, nv) == Len(po) \in 0..6 /\ \A i \in 1..Len(po) : MonoOK(po[i], nv)
InGrammar(pr) ==
  /\ pr.n \in 1..3 /\ pr.m \in 1..2
  /\ Len(pr.f) = pr.n /\ Len(pr.g) \in 0..3
  /\ \A i \in 1..Len(pr.f) : PolyOK(pr.f[i], pr.n + pr.m)
  /\ \A i \in 1..Len(pr.g) : PolyOK(pr.g[i], pr.n + pr.m)

\* all scalar (n = m = 1) monomials / polynomials of the grammar with |c| <= 2 and at most two terms
Monos11 == {e \in [1..3 -> 0..DegXU] : e[1] + e[2] <= DegXU /\ e[3] <= DegT}
Terms11(cs)    == [c : cs, e : Monos11]
Polys11(c1, c2) == {<<a>> : a \in Terms11(c1)} \cup {<<a, b>> : a \in Terms11(c1), b \in Terms11(c2)}
\* ProgIds = {0}: first coefficient in {-2, 1}, second 1 (1 860 programs);  ProgIds = {99}: {-2,-1,1,2} x {1,2} (7 320)
GrammarProgs11(full) ==
  [n : {1}, m : {1}, g : {<<>>},
   f : {<<po>> : po \in (IF full THEN Polys11({-2, -1, 1, 2}, {1, 2}) ELSE Polys11({-2, 1}, {1}))}]

\* hand-picked programs for the call-sequence configurations and the tabulated replay
\*   1:  f = (x1^2 t + u1,  x2^3 + x1 u1 t),  g = (x1 + t^2 u1)           (n = 2, m = 1)
\*   2:  f = (2 x1 u1 - t x1^3 + 3),          g = (x1 u1 t, u1^2 - x1)    (n = 1, m = 1)
DemoProgs == <<
  [n |-> 2, m |-> 1,
   f |-> << <<[c |-> 1, e |-> <<2, 0, 0, 1>>], [c |-> 1, e |-> <<0, 0, 1, 0>>]>>,
            <<[c |-> 1, e |-> <<0, 3, 0, 0>>], [c |-> 1, e |-> <<1, 0, 1, 1>>]>> >>,
   g |-> << <<[c |-> 1, e |-> <<1, 0, 0, 0>>], [c |-> 1, e |-> <<0, 0, 1, 2>>]>> >>],
  [n |-> 1, m |-> 1,
   f |-> << <<[c |-> 2, e |-> <<1, 1, 0>>], [c |-> -1, e |-> <<3, 0, 1>>], [c |-> 3, e |-> <<0, 0, 0>>]>> >>,
   g |-> << <<[c |-> 1, e |-> <<1, 1, 1>>]>>,
            <<[c |-> 1, e |-> <<0, 2, 0>>], [c |-> -1, e |-> <<1, 0, 0>>]>> >>] >>

\* ---------------------------------------------------------------- linear systems
\* stacks: S.A[b][k] is the matrix of batch element b at time index k-1 (LTI: one time index);
\* a stack with one batch element is broadcast over the batch of the state.
Pick(s, b)        == IF Len(s) = 1 THEN s[1] ELSE s[b]
TIdx(cl, k)       == IF cl = "LTI" THEN 1 ELSE k + 1
MatAt(cl, S, b, k) == Pick(S, b)[TIdx(cl, k)]
Horizon(cl, S)    == IF cl = "LTI" THEN 1000000 ELSE Len(S.A[1])   \* LTV: time indices 0..Horizon-1 exist
NB(S, x, u)       == Max2(Max2(Len(S.A), Len(x)), Len(u))
LinOut(cl, S, k, x, u) ==
  [xn |-> Tup(LAMBDA b : Affine(MatAt(cl, S.A, b, k), Pick(x, b), MatAt(cl, S.B, b, k), Pick(u, b), MatAt(cl, S.c1, b, k)),
               NB(S, x, u)),
   y  |-> Tup(LAMBDA b : Affine(MatAt(cl, S.C, b, k), Pick(x, b), MatAt(cl, S.D, b, k), Pick(u, b), MatAt(cl, S.c2, b, k)),
               NB(S, x, u))]

\* demo stacks for the design configurations: A_k = [[1, k], [0, 2]], B_k = [[k], [1]], C_k = [[1, 1]],
\* D_k = [[k + 1]], c1_k = (k, 1), c2_k = (2k)
DemoLin(cl) ==
  LET K == IF cl = "LTI" THEN 1 ELSE 16 IN
  [A  |-> << [k \in 1..K |-> << <<1, k - 1>>, <<0, 2>> >>] >>,
   B  |-> << [k \in 1..K |-> << <<k - 1>>, <<1>> >>] >>,
   C  |-> << [k \in 1..K |-> << <<1, 1>> >>] >>,
   D  |-> << [k \in 1..K |-> << <<k>> >>] >>,
   c1 |-> << [k \in 1..K |-> <<k - 1, 1>>] >>,
   c2 |-> << [k \in 1..K |-> <<2 * (k - 1)>>] >>]

\* ---------------------------------------------------------------- the transition function
\* state  s = [t, last, ref];  call c = [op, x, u, v] with x, u, v options
\* (x, u are batches of vectors -- TLC compares calls, so both ops use one shape; SetRefpoint: batches of one)
\* ref = Some([x, u, t, alias, f0, g0]); alias is TRUE only under the deviation AliasRefTime.
InitSt == [t |-> 0, last |-> None, ref |-> None]

RefOf(pr, s, c, alias) ==
  LET x  == IF IsSome(c.x) THEN c.x[1][1] ELSE s.last[1].x
      u  == IF IsSome(c.u) THEN c.u[1][1] ELSE s.last[1].u
      tt == IF IsSome(c.v) THEN c.v[1] ELSE s.t
  IN  [x |-> x, u |-> u, t |-> tt, alias |-> (alias /\ ~IsSome(c.v)),
       f0 |-> FVal(pr.f, Point(x, u, tt)), g0 |-> FVal(pr.g, Point(x, u, tt))]

\* the call is one whose behaviour is documented (others raise today or are unspecified: not generated)
Judged(cl, S, s, c) ==
  CASE c.op = "Forward" -> IF cl = "NLS" THEN TRUE ELSE s.t \in 0..(Horizon(cl, S) - 1)
    [] c.op = "SetRefpoint" /\ cl = "LTV" -> TRUE          \* without t: "the most recent timestamp is taken" (documented)
    [] c.op = "SetRefpoint" /\ cl = "NLS" -> (IsSome(c.x) /\ IsSome(c.u)) \/ IsSome(s.last)
    [] OTHER -> TRUE

StepSysA(cl, S, s, c, alias) ==
  CASE c.op = "Forward" ->
         [s   |-> [s EXCEPT !.t = s.t + 1,
                            !.last = IF cl = "NLS" THEN Some([x |-> c.x[1][1], u |-> c.u[1][1]]) ELSE s.last],
          out |-> Some(IF cl = "NLS"
                       THEN [tused |-> s.t,
                             xn |-> <<FVal(S.f, Point(c.x[1][1], c.u[1][1], s.t))>>,
                             y  |-> <<FVal(S.g, Point(c.x[1][1], c.u[1][1], s.t))>>]
                       ELSE [tused |-> s.t] @@ LinOut(cl, S, s.t, c.x[1], c.u[1]))]
    [] c.op \in {"Reset", "SetSystime"} ->
         [s |-> [s EXCEPT !.t = c.v[1]], out |-> None]
    [] c.op = "SetRefpoint" ->
         [s |-> CASE cl = "LTI" -> s
                  [] cl = "LTV" -> [s EXCEPT !.t = IF IsSome(c.v) THEN c.v[1] ELSE s.t]
                  [] cl = "NLS" -> [s EXCEPT !.ref = Some(RefOf(S, s, c, alias))],
          out |-> None]
    [] OTHER -> [s |-> s, out |-> None]       \* "ReadLin": reading A, B, C, D, c1, c2 changes nothing

StepSys(cl, S, s, c) == StepSysA(cl, S, s, c, FALSE)

\* what reading A, B, C, D, c1, c2 returns in state s (ref is Some)
ReadLin(pr, s) ==
  LET r == s.ref[1] IN Model(pr, r.x, r.u, IF r.alias THEN s.t ELSE r.t, r.f0, r.g0)

\* ---------------------------------------------------------------- the alphabet of the design runs
Xa == <<1, 2>>     Xb == <<-1, 3>>     Ua == <<2>>     Ub == <<-3>>
X1a == <<2>>       X1b == <<-1>>
XsOf(S) == IF S.n = 2 THEN (IF Rich THEN {Xa, Xb} ELSE {Xa}) ELSE (IF Rich THEN {X1a, X1b} ELSE {X1a})
UsOf(S) == IF Rich THEN {Ua, Ub} ELSE {Ua}
Opt(Sx) == {None} \cup {Some(v) : v \in Sx}
OptB(Sx) == {None} \cup {Some(<<v>>) : v \in Sx}
Call(op, x, u, v) == [op |-> op, x |-> x, u |-> u, v |-> v]

Calls(cl, S, s) ==
  LET Xs == IF cl = "NLS" THEN XsOf(S) ELSE (IF Rich THEN {Xa, Xb} ELSE {Xa})
      Us == IF cl = "NLS" THEN UsOf(S) ELSE (IF Rich THEN {Ua, Ub} ELSE {Ua})
  IN  {Call("Forward", Some(<<x>>), Some(<<u>>), None) : x \in Xs, u \in Us}
      \cup {Call(op, None, None, Some(v)) : op \in {"Reset", "SetSystime"}, v \in TimeVals}
      \cup (CASE cl = "LTI" -> {Call("SetRefpoint", None, None, None)}
              [] cl = "LTV" -> {Call("SetRefpoint", None, None, Some(v)) : v \in TimeVals} \cup {Call("SetRefpoint", None, None, None)}
              [] cl = "NLS" ->
                   IF Rich THEN {Call("SetRefpoint", x, u, v) : x \in OptB(Xs), u \in OptB(Us), v \in Opt(TimeVals)}
                   ELSE {Call("SetRefpoint", None, None, None), Call("SetRefpoint", Some(<<IF S.n = 2 THEN Xa ELSE X1a>>), None, None),
                         Call("SetRefpoint", None, None, Some(0)),
                         Call("SetRefpoint", Some(<<IF S.n = 2 THEN Xb ELSE X1b>>), Some(<<Ub>>), Some(2))})

\* ---------------------------------------------------------------- the state machine
St == [t |-> t, last |-> last, ref |-> ref]

Init ==
  /\ cls \in Classes
  /\ sys \in (IF cls = "NLS"
              THEN (IF ProgIds \subseteq {0, 99} THEN GrammarProgs11(ProgIds = {99}) ELSE {DemoProgs[i] : i \in ProgIds})
              ELSE {DemoLin(cls)})
  /\ t = 0 /\ last = None /\ ref = None /\ out = None
  /\ hist = <<>> /\ n = 0 /\ lastAct = Call("init", None, None, None)

Do(c) ==
  /\ n < MaxLen
  /\ Judged(cls, sys, St, c)
  /\ LET r == StepSysA(cls, sys, St, c, AliasRefTime) IN
       /\ t' = r.s.t /\ last' = r.s.last /\ ref' = r.s.ref /\ out' = r.out
  /\ hist' = IF KeepHist THEN Append(hist, c) ELSE hist
  /\ n' = n + 1 /\ lastAct' = c
  /\ UNCHANGED <<cls, sys>>

Forward     == \E c \in Calls(cls, sys, St) : c.op = "Forward" /\ Do(c)
Reset       == \E c \in Calls(cls, sys, St) : c.op = "Reset" /\ Do(c)
SetSystime  == \E c \in Calls(cls, sys, St) : c.op = "SetSystime" /\ Do(c)
SetRefpoint == \E c \in Calls(cls, sys, St) : c.op = "SetRefpoint" /\ Do(c)

Next == Forward \/ Reset \/ SetSystime \/ SetRefpoint
Spec == Init /\ [][Next]_vars
Bound == n <= MaxLen

\* ---------------------------------------------------------------- properties
TypeOK == t \in Int /\ n \in Nat /\ Len(last) \in 0..1 /\ Len(ref) \in 0..1 /\ Len(out) \in 0..1

\* The statement: the time is the fold of the call history -- every call of the system adds one,
\* reset / systime assignment (and LTV.set_refpoint(t)) set it, nothing else touches it.
RECURSIVE FoldTime(_, _, _)
FoldTime(cl, h, k) ==
  IF k = 0 THEN 0
  ELSE LET c == h[k]  prev == FoldTime(cl, h, k - 1) IN
       CASE c.op = "Forward" -> prev + 1
         [] c.op \in {"Reset", "SetSystime"} -> c.v[1]
         [] c.op = "SetRefpoint" /\ cl = "LTV" -> IF IsSome(c.v) THEN c.v[1] ELSE prev
         [] OTHER -> prev
TimeIsFold == KeepHist => t = FoldTime(cls, hist, Len(hist))

\* every call of the system advances the time by exactly one and computes at the pre-increment time
ForwardByOne == [][lastAct'.op = "Forward" => (t' = t + 1 /\ out'[1].tused = t)]_vars
SettersSet   == [][lastAct'.op \in {"Reset", "SetSystime"} => t' = lastAct'.v[1]]_vars
OthersKeepTime ==
  [][(lastAct'.op = "SetRefpoint" /\ cls # "LTV") => t' = t]_vars
\* LTI/LTV outputs are the affine map with the matrices of the pre-increment index
OutputsAtPreIncrement ==
  (IsSome(out) /\ cls # "NLS") =>
     LET c == lastAct  k == out[1].tused IN
       /\ k = t - 1
       /\ \A b \in 1..Len(out[1].xn) :
            /\ out[1].xn[b] = VAdd(VAdd(MV(sys.A[1][TIdx(cls, k)], c.x[1][b]), MV(sys.B[1][TIdx(cls, k)], c.u[1][b])),
                                   sys.c1[1][TIdx(cls, k)])
            /\ out[1].y[b]  = VAdd(VAdd(MV(sys.C[1][TIdx(cls, k)], c.x[1][b]), MV(sys.D[1][TIdx(cls, k)], c.u[1][b])),
                                   sys.c2[1][TIdx(cls, k)])

\* the reference point moves only by set_refpoint, and is the arguments / most recent values
RefOnlyBySetRefpoint == [][ref' # ref => lastAct'.op = "SetRefpoint"]_vars
RefIsArgsOrRecent ==
  (cls = "NLS" /\ lastAct.op = "SetRefpoint") =>
     LET r == ref[1]  c == lastAct IN
       /\ (IsSome(c.x) => r.x = c.x[1][1]) /\ (IsSome(c.u) => r.u = c.u[1][1])
       /\ (IsSome(c.v) => r.t = c.v[1]) /\ (~IsSome(c.v) => r.t = t)
       /\ (~IsSome(c.x) => IsSome(last) /\ r.x = last[1].x)
       /\ (~IsSome(c.u) => IsSome(last) /\ r.u = last[1].u)

\* whatever happened since set_refpoint, the matrices read are the Jacobians at the reference point and
\* the affine model reproduces f, g there
LinAtRef ==
  (cls = "NLS" /\ IsSome(ref)) =>
     LET r == ref[1]  mdl == ReadLin(sys, St)  p == Point(r.x, r.u, r.t) IN
       /\ mdl.A = Jac(sys.f, 1, sys.n, p) /\ mdl.B = Jac(sys.f, sys.n + 1, sys.n + sys.m, p)
       /\ mdl.C = Jac(sys.g, 1, sys.n, p) /\ mdl.D = Jac(sys.g, sys.n + 1, sys.n + sys.m, p)
       /\ Affine(mdl.A, r.x, mdl.B, r.u, mdl.c1) = FVal(sys.f, p)
       /\ Affine(mdl.C, r.x, mdl.D, r.u, mdl.c2) = FVal(sys.g, p)

\* the affine model's error is second order: for every displacement d of (x, u) and scale s,
\*   6 err(s d) = 3 s^2 d'H d + s^3 D3[d,d,d]     (no constant and no linear term)
Dirs(k) == {d \in [1..k -> {-1, 0, 1}] : \E i \in 1..k : d[i] # 0}
\* Along a line s |-> err(s d) the error of a program of (x,u)-degree <= 3 is c0 + c1 s + c2 s^2 + c3 s^3, and
\*   err(2d) - 6 err(d) + 2 err(-d) = -3 c0 - 6 c1,
\* so "second order" (c0 = c1 = 0) is:  err(0) = 0  and  err(2d) = 6 err(d) - 2 err(-d)  for every d.
SecondOrder ==
  (cls = "NLS" /\ IsSome(ref)) =>
     LET r == ref[1]  mdl == ReadLin(sys, St)  k == sys.n + sys.m
         Z == Tup(LAMBDA j : 0, k) IN
       /\ \A i \in 1..Len(sys.f) :
            /\ AffineErrF(sys, r, mdl, Z, i) = 0
            /\ \A d \in Dirs(k) :
                 AffineErrF(sys, r, mdl, VScale(2, d), i)
                   = 6 * AffineErrF(sys, r, mdl, d, i) - 2 * AffineErrF(sys, r, mdl, VScale(-1, d), i)
       /\ \A i \in 1..Len(sys.g) :
            /\ AffineErrG(sys, r, mdl, Z, i) = 0
            /\ \A d \in Dirs(k) :
                 AffineErrG(sys, r, mdl, VScale(2, d), i)
                   = 6 * AffineErrG(sys, r, mdl, d, i) - 2 * AffineErrG(sys, r, mdl, VScale(-1, d), i)

\* ... and the remainder is exactly the Taylor remainder built from the second and third symbolic derivatives:
\*   6 err(s d) = 3 s^2 d'H d + s^3 D3[d,d,d]
ExactRemainder ==
  (cls = "NLS" /\ IsSome(ref) /\ lastAct.op = "SetRefpoint") =>
     LET r == ref[1]  mdl == ReadLin(sys, St)  p == Point(r.x, r.u, r.t)  k == sys.n + sys.m IN
       /\ \A i \in 1..Len(sys.f) :
            LET Hm == Hess(sys.f[i], p, k)  Tm == Third(sys.f[i], p, k) IN
              \A d \in Dirs(k) : \A sc \in {1, 2} :
                6 * AffineErrF(sys, r, mdl, VScale(sc, d), i)
                  = 3 * sc * sc * Quad(Hm, d, k) + sc * sc * sc * Cubic(Tm, d, k)
       /\ \A i \in 1..Len(sys.g) :
            LET Hm == Hess(sys.g[i], p, k)  Tm == Third(sys.g[i], p, k) IN
              \A d \in Dirs(k) : \A sc \in {1, 2} :
                6 * AffineErrG(sys, r, mdl, VScale(sc, d), i)
                  = 3 * sc * sc * Quad(Hm, d, k) + sc * sc * sc * Cubic(Tm, d, k)

GrammarClosed == cls = "NLS" => InGrammar(sys)
================================================================================
