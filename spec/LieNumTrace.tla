------------------------------ MODULE LieNumTrace ------------------------------
(* Mode R: judges numeric measurements taken on the real LieTensor operations.  The     *)
(* harness evaluates the DEFINING expression of each operation in 60-digit arithmetic    *)
(* (matrix exponential / logarithm of generator matrices; finite differences of them)    *)
(* and logs the error of the implementation as an integer number of machine epsilons     *)
(* of the dtype (capped at 10^9) together with a finiteness flag and, where the           *)
(* documentation states a series truncation, an integer allowance.  The tolerance table   *)
(* and the verdict are the specification's.                                               *)
EXTENDS Naturals, Integers, Sequences, TLC, Json, IOUtils

Traces == JsonDeserialize(IOEnv.TRACE_FILE)

VARIABLES tid, l, verdict

\* tolerances in units of eps of the dtype ("small multiple of machine epsilon"), chosen >= 4x
\* what the unchanged / repaired tree measures; see DESIGN.md section 6
\* 4 sqrt(eps) in units of eps ("of the square root of machine epsilon"): quantities whose closed
\* forms cancel like 1 - cos(theta) (Jinvp, Jr, translation blocks) are held to this level
SqrtTol(dt) == IF dt = "f64" THEN 268435456 ELSE 11586

Tol(chk, dt) ==
  CASE chk = "adj_exp"    -> 1024      \* X @ Exp(a)  vs  Exp(Adj(X,a)) @ X       (matrices, relative)
    [] chk = "adjT_exp"   -> 1024      \* Exp(a) @ X  vs  X @ Exp(AdjT(X,a))
    [] chk = "retr_exp"   -> 64        \* Retr(X,a)   vs  Exp(a) @ X
    [] chk = "add_retr"   -> 64        \* X + a (padded a)  vs  Retr(X,a)
    [] chk = "add_inplace" -> 64       \* X.add_(a)   vs  Retr(X,a)
    [] chk = "alg_add"    -> 0         \* algebra + vector is plain addition (exact)
    [] chk = "jinvp"      -> SqrtTol(dt)   \* Jinvp(X,p)  vs  d/dh Log(Exp(h p) X)
    [] chk = "jr"         -> SqrtTol(dt)   \* Jr(x)       vs  d/dd Log(Exp(x)^-1 Exp(x+d))
    [] chk = "jr_zero"    -> 0         \* Jr(0) = I exactly
    [] chk = "jinvp_mid"  -> IF dt = "f64" THEN 60000 ELSE SqrtTol(dt)
                             \* Jinvp at moderate |Log X| (the Sim3 truncation allowance is small there); for f64 the
                             \* error and the allowance are logged in units of 1e-12 (4 sqrt(eps) = 6e-8 = 60000 units)
                             \* so that errors up to 1e-3 stay below the cap of the integer encoding
    [] chk = "grad_exp_act" -> SqrtTol(dt) \* autograd d Act(Exp(x), p)/dx  vs  finite differences of expm(hat x) p
    [] chk = "grad_log"   -> SqrtTol(dt)   \* autograd left-perturbation Jacobian of Log  vs  d/dh Log(Exp(h e_i) X)
    [] chk = "grad_logexp" -> SqrtTol(dt)  \* autograd d Log(Exp(x) @ Y)/dx  vs  finite differences
    [] chk = "grad_jinvp_X" -> SqrtTol(dt) \* autograd left-perturbation Jacobian of Jinvp(X, p) w.r.t. X  vs  second differences
    [] chk = "grad_jinvp_p" -> SqrtTol(dt) \* autograd Jacobian of Jinvp(X, p) w.r.t. p  vs  Jl^-1(Log X) by finite differences
    [] chk = "grad_batched" -> SqrtTol(dt) \* the Jacobian of an item evaluated inside a batch  vs  the same item evaluated alone
    [] chk = "grad_zero_slot" -> 0         \* the slot of a group gradient beyond the manifold dimension is exactly zero
    [] chk = "corr_gradient" -> 4096       \* C09: J'^T R' vs sum_i rho'(|R_i|^2) J_i^T R_i for the built-in kernels
    [] chk = "corr_ft_equal" -> 4096       \* C09: Triggs = FastTriggs where rho'' <= 0 or R_i = 0
    [] chk = "inv_extreme" -> 64       \* C03: X @ Inv X = Inv X @ X = I, Inv(X).Act(X.Act(p)) = p for scales 2^+-30..2^+-60
    [] chk = "adj_lin"    -> 256       \* Adj / AdjT as matrices: generic floats vs conjugation of generators
    [] chk = "adjT_lin"   -> 256
    [] OTHER              -> 0

Clause(e) ==
  IF ~e.finite THEN "nonfinite_" \o e.chk
  ELSE IF e.chk = "flag" THEN (IF e.ok THEN "ok" ELSE e.name)
  ELSE IF e.err > Tol(e.chk, e.dt) + e.allow THEN e.chk
  ELSE "ok"

Init == tid \in 1..Len(Traces) /\ l = 1 /\ verdict = "ok"

Next ==
  LET T == Traces[tid] IN
  /\ l <= Len(T.ev)
  /\ LET cl == Clause(T.ev[l]) IN
       /\ verdict' = IF verdict = "ok" /\ cl # "ok" THEN cl \o "@" \o ToString(l) ELSE verdict
       /\ (l = Len(T.ev)) => PrintT(<<"VERDICT", tid, verdict'>>)
  /\ l' = l + 1 /\ UNCHANGED tid

Spec == Init /\ [][Next]_<<tid, l, verdict>>
================================================================================
