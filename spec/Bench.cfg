SPECIFICATION Spec
