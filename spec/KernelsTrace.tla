---------------------------- MODULE KernelsTrace ----------------------------
(* Validates what the real pypose kernels and correctors RETURNED against Kernels.tla.   *)
(*                                                                                        *)
(* Four families of traces (cfg.kind):                                                    *)
(*  "corr"  FastTriggs(kernel)(R, J) / Triggs(kernel)(R, J) for user-defined polynomial    *)
(*          kernels rho(x) = sum_k c_k x^k.  Each event carries the integer/dyadic R, J,   *)
(*          the returned R', J' (and, for Triggs, what the real FastTriggs returned on the  *)
(*          same input).  TLC recomputes rho', rho'' from the coefficients, and evaluates   *)
(*          BOTH sides of both identities of Kernels on the returned values.               *)
(*  "opt"   one GaussNewton / LevenbergMarquardt step observed at the linear solver: the    *)
(*          stacked (J', R') resp. J'^T R', the reported robust loss and its autograd       *)
(*          gradient; residual group i must have been corrected with kernel i.              *)
(*  "huber" Huber(delta) on perfect squares (exact), incl. the threshold, zero, slope.      *)
(*  "kern"  the floating closed forms: the harness logs integer error measures against a    *)
(*          50-digit evaluation of the documented formula; the tolerances are Kernels'.     *)
(* Numbers: dyadics [m, e] = m 2^-e, rationals [n, d].  Verdicts are total: every event is  *)
(* consumed, the first failing clause is named "clause@index".  Clauses starting with       *)
(* "harness_" mean the log itself is inconsistent (machinery failure, not a violation).     *)
EXTENDS Naturals, Integers, Sequences, FiniteSets, TLC, Json, IOUtils

Traces == JsonDeserialize(IOEnv.TRACE_FILE)

K == INSTANCE Kernels WITH
       ShapeCodes <- {}, RMax <- 0, JMax <- 0, RSmall <- {}, JSmall <- {}, Rho1Quarters <- {},
       SqrtHalves <- {}, HuberDeltaHalves <- {}, HuberRoots <- 0,
       call <- "idle", arg <- <<>>, ret <- <<>>

VARIABLES tid, l, st, verdict
\* st = [n: events of the main kind consumed, px, py: previous Huber point,
\*       zero / neg / thr: the zero, negative-input and threshold probes were seen]

Pow2(k) == IF k = 0 THEN 1 ELSE 2 ^ k
Dy(p)   == K!QMk(p[1], Pow2(p[2]))
Rat(p)  == K!QMk(p[1], p[2])
DyVec(v) == [k \in 1..Len(v) |-> Dy(v[k])]
DyMat(m) == [k \in 1..Len(m) |-> DyVec(m[k])]

\* ---- polynomial kernels rho(x) = c[1] x + c[2] x^2 + ... (coefficients are rationals)
RECURSIVE QPow(_, _)
QPow(x, n) == IF n = 0 THEN K!One ELSE K!QMul(x, QPow(x, n - 1))
Poly0(c, x) == K!QSum([k \in 1..Len(c) |-> K!QMul(Rat(c[k]), QPow(x, k))])
Poly1(c, x) == K!QSum([k \in 1..Len(c) |-> K!QMul(K!QMul(K!Q(k), Rat(c[k])), QPow(x, k - 1))])
Poly2(c, x) == K!QSum([k \in 1..Len(c) |->
                  IF k = 1 THEN K!Zero ELSE K!QMul(K!QMul(K!Q(k * (k - 1)), Rat(c[k])), QPow(x, k - 2))])

\* rows of a corrector call; rho', rho'' are computed HERE from the kernel of the row
RowsOf(e, kern(_)) ==
  [i \in 1..Len(e.R) |->
     LET R == DyVec(e.R[i]) IN
       [R |-> R, J |-> DyMat(e.J[i]),
        g1 |-> Poly1(kern(i), K!SqNorm(R)), g2 |-> Poly2(kern(i), K!SqNorm(R))]]
OutOf(Rp, Jp) == [i \in 1..Len(Rp) |-> [R |-> DyVec(Rp[i]), J |-> DyMat(Jp[i])]]

\* ------------------------------------------------------------------ corrector events
CorrClause(cfg, s, e) ==
  LET in  == RowsOf(e, LAMBDA i : cfg.c)
      out == OutOf(e.Rp, e.Jp)
      M   == K!MaskedIdx(in)
      T   == cfg.corr = "Triggs"
  IN
  CASE e.k # s.n + 1 -> "harness_sequence"
    [] e.raised -> "raised"
    [] ~e.finite -> "nonfinite"
    [] \E i \in 1..Len(in) : in[i].g1 # Rat(e.g1[i]) \/ in[i].g2 # Rat(e.g2[i]) -> "harness_rho"
    [] \E i \in 1..Len(in) : ~K!Admissible(in[i]) -> "harness_inadmissible"
    [] ~e.exact /\ e.gerr > K!IdentityTol -> "gradient"
    [] ~e.exact /\ T /\ e.herr > K!IdentityTol -> "hessian"
    [] ~e.exact /\ T /\ e.cerr > K!IdentityTol -> "coincide_fast"
    [] ~e.exact -> "ok"
    [] K!GradLHS(out) # K!GradRHS(in) -> "gradient"
    [] T /\ M # {} /\ K!HessLHS(out, M) # K!HessRHS(in, M) -> "hessian"
    [] T /\ (\E i \in K!UnmaskedIdx(in) : out[i] # OutOf(e.Rf, e.Jf)[i]) -> "coincide_fast"
    [] OTHER -> "ok"

\* ------------------------------------------------------------------ optimiser events
KernelOfGroup(cfg, e, i) == IF Len(cfg.kernels) = 1 THEN cfg.kernels[1] ELSE cfg.kernels[e.grp[i]]

OptClause(cfg, s, e) ==
  LET in   == RowsOf(e, LAMBDA i : KernelOfGroup(cfg, e, i))
      P    == Len(e.lgrad)
      lhs  == IF e.act = "gn" THEN K!GradLHS(OutOf(e.Rp, e.Jp)) ELSE DyVec(e.jtr)
      loss == K!QSum([i \in 1..Len(in) |-> Poly0(KernelOfGroup(cfg, e, i), K!SqNorm(in[i].R))])
  IN
  CASE e.k # s.n + 1 -> "harness_sequence"
    [] e.raised -> "raised"
    [] ~e.finite -> "nonfinite"
    [] lhs # K!GradRHS(in) -> "opt_gradient"
    \* rows corrected by Triggs with rho'' > 0 and R # 0 carry the second-order term also when the corrector runs inside
    \* the optimiser's step (which disables gradient recording around it)
    [] e.act = "gn" /\ (LET M == {i \in K!MaskedIdx(in) :
                                  (IF Len(cfg.corrs) = 1 THEN cfg.corrs[1] ELSE cfg.corrs[e.grp[i]]) = "Triggs"} IN
                        M # {} /\ K!HessLHS(OutOf(e.Rp, e.Jp), M) # K!HessRHS(in, M)) -> "opt_hessian"
    [] Dy(e.loss) # loss -> "opt_loss"
    [] DyVec(e.lgrad) # K!ScaleVec(K!Two, lhs) -> "opt_descent"
    [] OTHER -> "ok"

\* ------------------------------------------------------------------ Huber on perfect squares
HuberValClause(cfg, s, e) ==
  LET x == Dy(e.x)
      y == Dy(e.y)
      dl == Dy(cfg.delta) IN
  CASE e.k # s.n + 1 -> "harness_sequence"
    [] ~K!QNonNeg(x) \/ ~K!QIsSquare(x) -> "harness_not_square"
    [] ~K!QLt(s.px, x) -> "harness_order"
    [] ~e.onlat -> "huber_value"
    [] ~K!HuberLegal(dl, x, y) -> "huber_value"
    [] x = K!Zero /\ y # K!Zero -> "zero_at_zero"
    [] ~K!QLe(s.py, y) -> "nondecreasing"
    [] OTHER -> "ok"

HuberGradClause(cfg, s, e) ==
  LET x == Dy(e.x)
      dl == Dy(cfg.delta) IN
  CASE ~K!QPos(x) \/ ~K!QIsSquare(x) -> "harness_not_square"
    [] ~e.onlat -> "huber_slope"
    [] ~K!HuberSlopeLegal(dl, x, Dy(e.g)) -> "huber_slope"
    [] OTHER -> "ok"

\* ------------------------------------------------------------------ floating closed forms
EvalClause(cfg, s, e) ==
  CASE e.k # s.n + 1 -> "harness_sequence"
    [] ~e.finite -> "finite"
    [] e.x0 /\ e.err > K!ZeroAtZeroTol -> "zero_at_zero"
    [] e.err > K!ClosedFormTol -> "closed_form"
    [] e.k > 1 /\ e.dy < 0 - K!MonotoneTol -> "nondecreasing"
    [] OTHER -> "ok"

NegClause(cfg, s, e) == IF e.raised THEN "ok" ELSE "negative_accepted"

DoneClause(cfg, s, e) ==
  CASE s.n # e.n -> "harness_missing_event"
    [] cfg.kind \in {"huber", "kern"} /\ ~s.zero -> "harness_no_zero_probe"
    [] cfg.kind \in {"huber", "kern"} /\ ~s.neg -> "harness_no_negative_probe"
    [] cfg.kind = "huber" /\ ~s.thr -> "harness_no_threshold_probe"
    [] OTHER -> "ok"

Clause(cfg, s, e) ==
  CASE e.act = "corr"  -> CorrClause(cfg, s, e)
    [] e.act \in {"gn", "lm"} -> OptClause(cfg, s, e)
    [] e.act = "hval"  -> HuberValClause(cfg, s, e)
    [] e.act = "hgrad" -> HuberGradClause(cfg, s, e)
    [] e.act = "eval"  -> EvalClause(cfg, s, e)
    [] e.act = "neg"   -> NegClause(cfg, s, e)
    [] e.act = "done"  -> DoneClause(cfg, s, e)
    [] OTHER -> "harness_unknown_event"

\* resynchronise to the logged event
NextSt(cfg, s, e) ==
  CASE e.act \in {"corr", "gn", "lm"} -> [s EXCEPT !.n = e.k]
    [] e.act = "hval" ->
         [s EXCEPT !.n = e.k, !.px = Dy(e.x), !.py = IF e.onlat THEN Dy(e.y) ELSE s.py,
                   !.zero = s.zero \/ Dy(e.x) = K!Zero,
                   !.thr = s.thr \/ Dy(e.x) = K!QMul(Dy(cfg.delta), Dy(cfg.delta))]
    [] e.act = "eval" -> [s EXCEPT !.n = e.k, !.zero = s.zero \/ e.x0]
    [] e.act = "neg"  -> [s EXCEPT !.neg = TRUE]
    [] OTHER -> s

Init ==
  /\ tid \in 1..Len(Traces)
  /\ l = 1
  /\ st = [n |-> 0, px |-> <<-1, 1>>, py |-> K!Zero, zero |-> FALSE, neg |-> FALSE, thr |-> FALSE]
  /\ verdict = "ok"

Next ==
  LET T == Traces[tid] IN
  /\ l <= Len(T.ev)
  /\ LET e == T.ev[l]
         cl == Clause(T.cfg, st, e) IN
       /\ verdict' = IF verdict = "ok" /\ cl # "ok" THEN cl \o "@" \o ToString(l) ELSE verdict
       /\ st' = NextSt(T.cfg, st, e)
       /\ (l = Len(T.ev)) => PrintT(<<"VERDICT", tid, verdict'>>)
  /\ l' = l + 1 /\ UNCHANGED tid

Spec == Init /\ [][Next]_<<tid, l, st, verdict>>
================================================================================
