\* vacuity witness: TLC must report NoFullStreamInChunks violated (a reset=False integrator reaches the end of the
\* longest stream in >= 3 chunks), i.e. the states BufferIsFold speaks about are reachable
SPECIFICATION Spec
CONSTANTS
  MaxF = 4
  MaxB = 1
  RotLeft = FALSE
  CovLeft = FALSE
  InitOnLeft = TRUE
  GravPost = TRUE
  KeepHist = TRUE
INVARIANT NoFullStreamInChunks
CHECK_DEADLOCK FALSE
