\* quick: 27 world points x 16 intrinsics (fx, fy in {+-3/2}, cx, cy in {0, 9/4})
\*        x (None + 24 Hurwitz rotations with translation (1,-2,3)); every call sequence
SPECIFICATION Spec
CONSTANTS
  CoordMag = {0, 2}
  FocalQ = {6}
  CenterQ = {0, 9}
  Trans = {2}
  Deltas = {1}
INVARIANT RotExact
INVARIANT ProjectIsProjectQ
INVARIANT BackOfProject
INVARIANT ProjectOfBack
INVARIANT ReprojZeroExactly
INVARIANT HomoCart
CHECK_DEADLOCK FALSE
