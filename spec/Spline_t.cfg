\* thorough: N up to 5, points in -3..3, intervals down to 1/16
SPECIFICATION Spec
CONSTANTS
  NSet = {2,3,4,5}
  PMax = 3
  MSet = {1,2,3,4}
  CntMax = 3000
INVARIANT ChInterpolates
INVARIANT ChSegmentIndependent
INVARIANT ChLines
INVARIANT ChQuadraticsInterior
INVARIANT ChSampleCount
INVARIANT ChSegmentsValid
INVARIANT BasisContinuity
INVARIANT BasisUnitSpeed
INVARIANT BsContinuous
INVARIANT BsLines
INVARIANT BsEnds
INVARIANT BsEquivariant
INVARIANT BsSampleCount
INVARIANT CntIsCeil
INVARIANT CntDyadic
CHECK_DEADLOCK FALSE
