------------------------------- MODULE LQRExact -------------------------------
(* The finite-horizon LQ problem solved by pypose.module.LQR, over exact rationals.        *)
(*                                                                                         *)
(*   minimise   sum_{t=0}^{T-1}  1/2 tau_t' Q_t tau_t + p_t' tau_t ,   tau_t = (x_t, u_t)    *)
(*   subject to x_0 = x_init,  x_{t+1} = A_t x_t + B_t u_t + c1_t                            *)
(*                                                                                         *)
(* Solve = the backward value recursion (Q_t, q_t, K_t, k_t, V_t, v_t as documented in the   *)
(* LQR docstring) followed by the forward roll-out; Cost(inst, u) = the cost of an arbitrary  *)
(* input sequence.  Because the cost is a quadratic function of the inputs,                   *)
(*      dJ/du_{t,j} = (J(u + e_tj) - J(u - e_tj)) / 2        exactly,                         *)
(* so ZeroGradient is stated with two cost evaluations per input component, and              *)
(* NoBetterNeighbour with the 3^(T m) - 1 lattice neighbours u + d, d in {-1,0,1}^(T m).      *)
(* Rationals are pairs <<num, den>>, den > 0, in lowest terms; data are small integers.       *)
(* An instance is [n, m, T, A, B, c1, Q, p, x0] with A, B, c1, Q, p sequences over t = 1..T   *)
(* (an LTI system repeats the same matrices).                                                 *)
EXTENDS Naturals, Integers, Sequences, FiniteSets, TLC

CONSTANTS Family       \* "scalar" | "two" (quick) | "scalarL" | "twoL" (thorough): the enumerated family explored

VARIABLES inst, phase
vars == <<inst, phase>>

\* ---------------------------------------------------------------- rationals
Abs(a) == IF a < 0 THEN -a ELSE a
RECURSIVE Gcd(_, _)
Gcd(a, b) == IF b = 0 THEN a ELSE Gcd(b, a % b)
Norm(nu, de) ==
  LET sg == IF de < 0 THEN -1 ELSE 1
      g  == Gcd(Abs(nu), Abs(de))
  IN  IF nu = 0 THEN <<0, 1>> ELSE <<(sg * nu) \div g, (sg * de) \div g>>
FI(i)      == <<i, 1>>
FAdd(a, b) == LET g == Gcd(a[2], b[2]) IN Norm(a[1] * (b[2] \div g) + b[1] * (a[2] \div g), (a[2] \div g) * b[2])
FNeg(a)    == <<-a[1], a[2]>>
FSub(a, b) == FAdd(a, FNeg(b))
FMul(a, b) == LET g1 == Gcd(Abs(a[1]), b[2])  g2 == Gcd(Abs(b[1]), a[2]) IN
              IF a[1] = 0 \/ b[1] = 0 THEN <<0, 1>>
              ELSE <<(a[1] \div g1) * (b[1] \div g2), (a[2] \div g2) * (b[2] \div g1)>>
FInv(a)    == IF a[1] < 0 THEN <<-a[2], -a[1]>> ELSE <<a[2], a[1]>>
FDiv(a, b) == FMul(a, FInv(b))
FHalf(a)   == FMul(a, <<1, 2>>)
FLeq(a, b) == FSub(a, b)[1] <= 0
FLess(a, b) == FSub(a, b)[1] < 0
FPos(a)    == a[1] > 0

\* ---------------------------------------------------------------- vectors / matrices over rationals
\* TLC's [i \in 1..n |-> e] is a lazy closure whose body is re-evaluated at every application; tuples are eager.
Tup(F(_), n) == CASE n = 0 -> <<>> [] n = 1 -> <<F(1)>> [] n = 2 -> <<F(1), F(2)>> [] n = 3 -> <<F(1), F(2), F(3)>>
                  [] n = 4 -> <<F(1), F(2), F(3), F(4)>>
RECURSIVE FSumR(_, _)
FSumR(s, k) == IF k = 0 THEN <<0, 1>> ELSE FAdd(s[k], FSumR(s, k - 1))
FSum(s)     == FSumR(s, Len(s))
FDot(a, b)  == FSum(Tup(LAMBDA i : FMul(a[i], b[i]), Len(a)))
Rows(M)     == Len(M)
Cols(M)     == Len(M[1])
MT(M)       == Tup(LAMBDA j : Tup(LAMBDA i : M[i][j], Rows(M)), Cols(M))
MV(M, v)    == Tup(LAMBDA i : FDot(M[i], v), Rows(M))
MM(M, N)    == LET Nt == MT(N) IN Tup(LAMBDA i : Tup(LAMBDA j : FDot(M[i], Nt[j]), Rows(Nt)), Rows(M))
MAdd(M, N)  == Tup(LAMBDA i : Tup(LAMBDA j : FAdd(M[i][j], N[i][j]), Cols(M)), Rows(M))
MNeg(M)     == Tup(LAMBDA i : Tup(LAMBDA j : FNeg(M[i][j]), Cols(M)), Rows(M))
VAdd(a, b)  == Tup(LAMBDA i : FAdd(a[i], b[i]), Len(a))
VNeg(a)     == Tup(LAMBDA i : FNeg(a[i]), Len(a))
IM(M)       == Tup(LAMBDA i : Tup(LAMBDA j : FI(M[i][j]), Len(M[i])), Len(M))     \* integer matrix -> rational
IV(v)       == Tup(LAMBDA i : FI(v[i]), Len(v))
Sub(M, r0, r1, c0, c1) == Tup(LAMBDA i : Tup(LAMBDA j : M[r0 + i - 1][c0 + j - 1], c1 - c0 + 1), r1 - r0 + 1)
HCat(M, N)  == Tup(LAMBDA i : M[i] \o N[i], Rows(M))
\* inverse of a 1x1 or 2x2 matrix
Det2(M)     == FSub(FMul(M[1][1], M[2][2]), FMul(M[1][2], M[2][1]))
MInv(M)     == IF Rows(M) = 1 THEN << <<FInv(M[1][1])>> >>
               ELSE LET d == Det2(M) IN
                    << <<FDiv(M[2][2], d), FDiv(FNeg(M[1][2]), d)>>, <<FDiv(FNeg(M[2][1]), d), FDiv(M[1][1], d)>> >>
\* positive definiteness of a symmetric integer matrix of order <= 3 by leading minors
IDet2(M, a, b)  == M[a][a] * M[b][b] - M[a][b] * M[b][a]
IDet3(M) == M[1][1] * (M[2][2] * M[3][3] - M[2][3] * M[3][2]) - M[1][2] * (M[2][1] * M[3][3] - M[2][3] * M[3][1])
            + M[1][3] * (M[2][1] * M[3][2] - M[2][2] * M[3][1])
Symmetric(M) == \A i, j \in 1..Len(M) : M[i][j] = M[j][i]
PD(M) == /\ Symmetric(M) /\ M[1][1] > 0
         /\ (Len(M) >= 2 => IDet2(M, 1, 2) > 0)
         /\ (Len(M) >= 3 => IDet3(M) > 0)
         /\ Len(M) <= 3

\* ---------------------------------------------------------------- the LQ problem
WellFormed(I) ==
  /\ I.n \in 1..2 /\ I.m \in 1..2 /\ I.n + I.m <= 3 /\ I.T \in 1..3
  /\ Len(I.A) = I.T /\ Len(I.B) = I.T /\ Len(I.c1) = I.T /\ Len(I.Q) = I.T /\ Len(I.p) = I.T
  /\ \A t \in 1..I.T : PD(I.Q[t]) /\ Len(I.Q[t]) = I.n + I.m
  /\ Len(I.x0) = I.n

\* backward recursion: returns the sequences K (m x n) and kk (m) for t = 1..T
RECURSIVE Back(_, _, _, _)
\* Back(I, t, V, v) = gains for stages t, t-1, ..., 1 given the value (V, v) of stage t+1 (V = <<>> at the end)
Back(I, t, V, v) ==
  IF t = 0 THEN [K |-> <<>>, kk |-> <<>>]
  ELSE
  LET n  == I.n   m == I.m
      F  == HCat(IM(I.A[t]), IM(I.B[t]))
      Qt == IF V = <<>> THEN IM(I.Q[t]) ELSE MAdd(IM(I.Q[t]), MM(MM(MT(F), V), F))
      qt == IF V = <<>> THEN IV(I.p[t])
            ELSE VAdd(VAdd(IV(I.p[t]), MV(MM(MT(F), V), IV(I.c1[t]))), MV(MT(F), v))
      Qxx == Sub(Qt, 1, n, 1, n)           Qxu == Sub(Qt, 1, n, n + 1, n + m)
      Qux == Sub(Qt, n + 1, n + m, 1, n)   Quu == Sub(Qt, n + 1, n + m, n + 1, n + m)
      qx  == SubSeq(qt, 1, n)              qu  == SubSeq(qt, n + 1, n + m)
      Qi  == MInv(Quu)
      K   == MNeg(MM(Qi, Qux))
      kk  == VNeg(MV(Qi, qu))
      Vn  == MAdd(MAdd(Qxx, MM(Qxu, K)), MAdd(MM(MT(K), Qux), MM(MM(MT(K), Quu), K)))
      vn  == VAdd(VAdd(qx, MV(Qxu, kk)), VAdd(MV(MT(K), qu), MV(MM(MT(K), Quu), kk)))
      rest == Back(I, t - 1, Vn, vn)
  IN  [K |-> Append(rest.K, K), kk |-> Append(rest.kk, kk)]

Gains(I) == Back(I, I.T, <<>>, <<>>)

StepX(I, t, x, u) == VAdd(VAdd(MV(IM(I.A[t]), x), MV(IM(I.B[t]), u)), IV(I.c1[t]))
StageCost(I, t, x, u) ==
  LET tau == x \o u IN FAdd(FHalf(FDot(tau, MV(IM(I.Q[t]), tau))), FDot(IV(I.p[t]), tau))

\* roll-out with the feedback law (fb) or with a given input sequence U
RECURSIVE Roll(_, _, _, _, _, _, _, _)
Roll(I, fb, G, U, t, x, xs, acc) ==
  IF t > I.T THEN [x |-> Append(xs, x), u |-> acc.u, cost |-> acc.cost]
  ELSE LET u == IF fb THEN VAdd(MV(G.K[t], x), G.kk[t]) ELSE U[t] IN
       Roll(I, fb, G, U, t + 1, StepX(I, t, x, u), Append(xs, x),
            [u |-> Append(acc.u, u), cost |-> FAdd(acc.cost, StageCost(I, t, x, u))])

Solve(I)   == Roll(I, TRUE, Gains(I), <<>>, 1, IV(I.x0), <<>>, [u |-> <<>>, cost |-> <<0, 1>>])
Cost(I, U) == Roll(I, FALSE, <<>>, U, 1, IV(I.x0), <<>>, [u |-> <<>>, cost |-> <<0, 1>>]).cost

\* ---------------------------------------------------------------- optimality
Perturb(U, D) == Tup(LAMBDA t : Tup(LAMBDA j : FAdd(U[t][j], FI(D[t][j])), Len(U[t])), Len(U))
UnitDirs(I)   == {[t \in 1..I.T |-> [j \in 1..I.m |-> IF t = tt /\ j = jj THEN 1 ELSE 0]] : tt \in 1..I.T, jj \in 1..I.m}
AllDirs(I)    == [1..I.T -> [1..I.m -> {-1, 0, 1}]]
NegDir(D)     == Tup(LAMBDA t : Tup(LAMBDA j : -D[t][j], Len(D[t])), Len(D))

ZeroGradientAt(I, U) == \A D \in UnitDirs(I) : Cost(I, Perturb(U, D)) = Cost(I, Perturb(U, NegDir(D)))
NoBetterNeighbourAt(I, U, J) == \A D \in AllDirs(I) : FLeq(J, Cost(I, Perturb(U, D)))
Feasible(I, S) ==
  /\ S.x[1] = IV(I.x0)
  /\ \A t \in 1..I.T : S.x[t + 1] = StepX(I, t, S.x[t], S.u[t])
  /\ Len(S.x) = I.T + 1 /\ Len(S.u) = I.T
CostIsSum(I, S) == S.cost = Cost(I, S.u)

\* ---------------------------------------------------------------- enumerated families
Seqs(S, L)  == [1..L -> S]
Const(v, L) == [t \in 1..L |-> v]
Big == Family \in {"scalarL", "twoL"}       \* thorough tier: larger families
\* scalar systems: a_t in {-1, 2} (every sequence: LTI and LTV), b_t = 1 or t, three PD cost families (one time-varying)
ScalarInstances ==
  UNION {
    { [n |-> 1, m |-> 1, T |-> L, A |-> [t \in 1..L |-> << <<a[t]>> >>], B |-> [t \in 1..L |-> << <<b[t]>> >>],
       c1 |-> Const(<<w[1]>>, L), Q |-> [t \in 1..L |-> q[t]], p |-> Const(w[2], L), x0 |-> <<w[3]>>]
      : a \in Seqs(IF Big THEN {-1, 1, 2} ELSE {-1, 2}, L), b \in {Const(1, L), [t \in 1..L |-> t]},
        q \in {Const(<< <<1, 0>>, <<0, 1>> >>, L), Const(<< <<2, 1>>, <<1, 1>> >>, L),
               [t \in 1..L |-> << <<t, -1>>, <<-1, 3>> >>]},
        w \in (IF Big THEN {<<c, pp, x>> : c \in {0, 1}, pp \in {<<0, 0>>, <<1, -1>>}, x \in {1, -2}}
                      ELSE {<<0, <<0, 0>>, 1>>, <<1, <<1, -1>>, -2>>}) }
    : L \in 1..3 }

A2 == { << <<1, 1>>, <<0, 1>> >>, << <<0, 1>>, <<-1, 1>> >>, << <<2, 0>>, <<1, -1>> >> }
B2 == { << <<0>>, <<1>> >>, << <<1>>, <<1>> >> }
Q3 == { << <<1, 0, 0>>, <<0, 1, 0>>, <<0, 0, 1>> >>, << <<2, 0, 1>>, <<0, 1, 0>>, <<1, 0, 2>> >> }
\* two-state systems: A constant (LTI) or alternating between two matrices (LTV); thorough: every sequence
ASeqs2(L) == IF Big THEN Seqs(A2, L) ELSE {[t \in 1..L |-> IF t % 2 = 1 THEN a ELSE b] : a \in A2, b \in A2}
TwoInstances ==
  UNION {
    { [n |-> 2, m |-> 1, T |-> L, A |-> a, B |-> Const(b, L), c1 |-> Const(w[1], L), Q |-> Const(q, L), p |-> Const(w[2], L),
       x0 |-> w[3]]
      : a \in ASeqs2(L), b \in B2, q \in Q3,
        w \in (IF Big THEN {<<c, pp, x>> : c \in {<<0, 0>>, <<1, 0>>}, pp \in {<<0, 0, 0>>, <<1, 0, -1>>},
                                          x \in {<<1, 0>>, <<1, -1>>}}
                      ELSE {<< <<0, 0>>, <<0, 0, 0>>, <<1, 0>> >>, << <<1, 0>>, <<1, 0, -1>>, <<1, -1>> >>}) }
    : L \in 1..3 }

Instances == IF Family \in {"scalar", "scalarL"} THEN ScalarInstances ELSE TwoInstances

\* ---------------------------------------------------------------- enumerating state machine
Init == inst \in Instances /\ phase = 0
Next == phase = 0 /\ phase' = 1 /\ UNCHANGED inst
Spec == Init /\ [][Next]_vars

InstancesWellFormed == WellFormed(inst)
\* the Riccati solution is feasible, its cost is the sum, the gradient with respect to every input vanishes and
\* no lattice neighbour is better: it is the global minimiser (the cost is a convex quadratic in u)
SolutionFeasible  == phase = 1 => LET S == Solve(inst) IN Feasible(inst, S) /\ CostIsSum(inst, S)
ZeroGradient      == phase = 1 => ZeroGradientAt(inst, Solve(inst).u)
NoBetterNeighbour == phase = 1 => LET S == Solve(inst) IN NoBetterNeighbourAt(inst, S.u, S.cost)
================================================================================
