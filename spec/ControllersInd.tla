---------------------------- MODULE ControllersInd ----------------------------
(* Unbounded version of the controller state machine of Controllers.tla for Apalache:   *)
(* the step budget and the patience are arbitrary naturals, the history is summarised    *)
(* by ghost variables.  IndInv is an inductive invariant (checked with                   *)
(*   apalache-mc check --init=IndInit --inv=IndInv --length=1   and                      *)
(*   apalache-mc check --init=Init    --inv=IndInv --length=0),                          *)
(* which extends the TLC result (steps 1..6, patience 1..4, histories to length 12)      *)
(* to every budget, every patience and every history length.                             *)
EXTENDS Integers

VARIABLES
  \* @type: Int;
  max,
  \* @type: Int;
  pat,
  \* @type: Int;
  steps,
  \* @type: Int;
  pc,
  \* @type: Bool;
  cont,
  \* @type: Int;
  n,          \* ghost: events since the last reset
  \* @type: Int;
  trail,      \* ghost: length of the trailing run of non-improving events
  \* @type: Bool;
  caused      \* ghost: some event since the last reset was a documented stopping cause

Init ==
  /\ max \in Nat /\ pat \in Nat /\ max >= 1 /\ pat >= 1
  /\ steps = 0 /\ pc = 0 /\ cont = TRUE /\ n = 0 /\ trail = 0 /\ caused = FALSE

\* the controller step as a function (ControllersGen checks with TLC that it equals Controllers!StepCtl)
\* @type: (Int, Int, Int, Int, Bool, Bool, Bool) => <<Int, Int, Bool>>;
StepFn(mx, pt, st0, pc0, cont0, noimp, kill) ==
  LET st == st0 + 1
      p  == IF noimp THEN pc0 + 1 ELSE 0 IN
  <<st, p, cont0 /\ st < mx /\ p < pt /\ ~kill>>

\* one controller step on an abstract event (noimp, kill)
Step(noimp, kill) ==
  LET r  == StepFn(max, pat, steps, pc, cont, noimp, kill)
      tr == IF noimp THEN trail + 1 ELSE 0 IN
  /\ steps' = r[1] /\ pc' = r[2]
  /\ cont' = r[3]
  /\ n' = n + 1 /\ trail' = tr
  /\ caused' = (caused \/ (n + 1 >= max) \/ kill \/ (tr >= pat))
  /\ UNCHANGED <<max, pat>>

Reset ==
  /\ steps' = 0 /\ pc' = 0 /\ cont' = TRUE /\ n' = 0 /\ trail' = 0 /\ caused' = FALSE
  /\ UNCHANGED <<max, pat>>

Next == (\E noimp \in BOOLEAN, kill \in BOOLEAN : Step(noimp, kill)) \/ Reset

\* the statement: continual() is true exactly while no documented cause has occurred;
\* the implementation's counters are the ghost quantities of the statement
IndInv ==
  /\ max >= 1 /\ pat >= 1
  /\ steps >= 0 /\ pc >= 0 /\ n >= 0 /\ trail >= 0
  /\ steps = n
  /\ pc = trail
  /\ cont = ~caused
  /\ (cont => (steps < max /\ pc < pat))

\* @type: () => Bool;
IndInit ==
  /\ max \in Int /\ pat \in Int /\ steps \in Int /\ pc \in Int /\ n \in Int /\ trail \in Int
  /\ cont \in BOOLEAN /\ caused \in BOOLEAN
  /\ IndInv

BudgetInv == cont => steps < max
================================================================================
