------------------------------ MODULE SysTimeGen ------------------------------
(* spec -> code: tabulates the behaviours of SysTime.  For every system class (and, for    *)
(* NLS, each demo polynomial program) TLC computes the set of states reachable from the      *)
(* initial state within GDepth calls of the rich alphabet and, for every such state and      *)
(* every enabled call, the successor state, the outputs of Forward and what A, B, C, D, c1,  *)
(* c2 must read afterwards.  Replaying every row on a real object (after driving it along a   *)
(* shortest path to the row's state) executes every call sequence of length <= GDepth + 1     *)
(* of the specification, up to state equivalence.                                             *)
EXTENDS Naturals, Integers, Sequences, TLC, Json, IOUtils, FiniteSets

CONSTANTS GDepth, GTimeVals

S == INSTANCE SysTime WITH
       Classes <- {}, TimeVals <- GTimeVals, MaxLen <- 0, KeepHist <- FALSE, Rich <- TRUE, ProgIds <- {},
       AliasRefTime <- FALSE,
       cls <- "", sys <- <<>>, t <- 0, last <- <<>>, ref <- <<>>, out <- <<>>, hist <- <<>>, n <- 0, lastAct <- <<>>

Systems == {[cls |-> "LTI", sys |-> S!DemoLin("LTI"), pid |-> 0],
            [cls |-> "LTV", sys |-> S!DemoLin("LTV"), pid |-> 0]}
           \cup {[cls |-> "NLS", sys |-> S!DemoProgs[i], pid |-> i] : i \in 1..Len(S!DemoProgs)}

Enabled(Y, s) == {c \in S!Calls(Y.cls, Y.sys, s) : S!Judged(Y.cls, Y.sys, s, c)}

\* states reachable within k calls (the bound of c depends on s, hence the UNION)
ReachD(Y, k) ==
  LET RECURSIVE R(_)
      R(j) == IF j = 0 THEN {S!InitSt}
              ELSE LET P == R(j - 1) IN
                   P \cup UNION {{S!StepSys(Y.cls, Y.sys, s, c).s : c \in Enabled(Y, s)} : s \in P}
  IN R(k)

RowsOf(Y) ==
  {[s |-> s, c |-> c, s2 |-> r.s, out |-> r.out,
    lin |-> IF Y.cls = "NLS" /\ Len(r.s.ref) = 1 THEN <<S!ReadLin(Y.sys, r.s)>> ELSE <<>>]
     : <<s, c, r>> \in UNION {{<<s, c, S!StepSys(Y.cls, Y.sys, s, c)>> : c \in Enabled(Y, s)} : s \in ReachD(Y, GDepth)}}

SysList == <<[cls |-> "LTI", pid |-> 0], [cls |-> "LTV", pid |-> 0], [cls |-> "NLS", pid |-> 1], [cls |-> "NLS", pid |-> 2]>>
Lookup(q) == CHOOSE Y \in Systems : Y.cls = q.cls /\ Y.pid = q.pid

ASSUME JsonSerialize(IOEnv.OUT_FILE,
         [init |-> S!InitSt,
          tables |-> [i \in 1..Len(SysList) |->
                        LET Y == Lookup(SysList[i]) IN [cls |-> Y.cls, pid |-> Y.pid, sys |-> Y.sys, rows |-> RowsOf(Y)]]])
ASSUME PrintT(<<"ROWS", [i \in 1..Len(SysList) |-> Cardinality(RowsOf(Lookup(SysList[i])))]>>)

VARIABLE x
Init == x = 0
Next == UNCHANGED x
Spec == Init /\ [][Next]_x
================================================================================
