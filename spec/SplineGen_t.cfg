SPECIFICATION Spec
CONSTANTS
  GN = {2,3,4,5}
  GPMax = 1
  GM = {1,2,3}
