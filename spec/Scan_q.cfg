SPECIFICATION Spec
CONSTANT MaxL = 512
INVARIANT ClosedForm
INVARIANT NeverBad
INVARIANT FoldAtEnd
INVARIANT RoundCount
INVARIANT StridePow2
CHECK_DEADLOCK FALSE
