-------------------------------- MODULE LieJacMC --------------------------------
(* Design-level checks for LieJac / LieRing, exhaustive over a lattice of elements:       *)
(*  (1) LieRing instantiated over plain dyadics coincides with LieExact (two independent   *)
(*      transcriptions of the group formulas);                                             *)
(*  (2) the per-operator left-perturbation Jacobians that the pypose documentation and     *)
(*      backward passes rely on equal the dual-number derivation:                          *)
(*        d(X Y)/dX = I,  d(X Y)/dY = Adj(X),  dInv(X) = -Adj(X^-1),                        *)
(*        dAct(X, p)/dX = [I, -[Xp]x, Xp],  dAct/dp = s R,                                  *)
(*        dAdj(X, a)/dX = -ad(Adj(X) a) (as  [b, Adj(X) a]),  dAdj/da = Adj(X),             *)
(*        dAdjT(X, a)/da = Adj(X^-1),  dAdjT(X, a)/dX = Adj(X^-1) [a, b] ... (by commutator) *)
(*        Exp / Log are mutually inverse to first order at pure translations.              *)
EXTENDS LieJac

E == INSTANCE LieExact

CONSTANTS Ty, Deep

VARIABLES X, Y      \* dyadic tuples in the tensor layout of Ty

HasT == Ty \in {"SE3", "Sim3"}
HasS == Ty \in {"RxSO3", "Sim3"}
Ts == IF HasT THEN (IF Deep THEN E!IntVec3(-1, 1) ELSE { <<D(0), D(0), D(0)>>, <<D(1), D(-2), D(3)>>, <<D(-1), D(0), D(2)>> })
      ELSE { <<D(0), D(0), D(0)>> }
Ss == IF HasS THEN { DOne, D(2), DHalf } ELSE { DOne }
Elems == { E!Encode(Ty, E!Elem(t, q, s)) : t \in Ts, q \in E!Units24, s \in Ss }
Partners == { E!Encode(Ty, E!Elem(IF HasT THEN <<D(1), D(-1), D(2)>> ELSE <<D(0), D(0), D(0)>>,
                                  <<DHalf, DNeg(DHalf), DHalf, DHalf>>, IF HasS THEN D(2) ELSE DOne)),
              E!Encode(Ty, E!Elem(IF HasT THEN <<D(0), D(3), D(0)>> ELSE <<D(0), D(0), D(0)>>,
                                  <<DZero, DOne, DZero, DZero>>, IF HasS THEN DHalf ELSE DOne)) }

Init == X \in Elems /\ Y \in Partners
Next == UNCHANGED <<X, Y>>
Spec == Init /\ [][Next]_<<X, Y>>

n == ADim(Ty)
Basis == 1..n
GX == DecG(Ty, Lift(X))
GY == DecG(Ty, Lift(Y))
ReA(A) == [tau |-> <<Re(A.tau[1]), Re(A.tau[2]), Re(A.tau[3])>>, phi |-> <<Re(A.phi[1]), Re(A.phi[2]), Re(A.phi[3])>>, sigma |-> Re(A.sigma)]
DuA(A) == [tau |-> <<Du(A.tau[1]), Du(A.tau[2]), Du(A.tau[3])>>, phi |-> <<Du(A.phi[1]), Du(A.phi[2]), Du(A.phi[3])>>, sigma |-> Du(A.sigma)]
EA(i)  == DuA(UnitA(Ty, i))          \* the dyadic basis element e_i as an algebra record
EX == E!Decode(Ty, X)
EY == E!Decode(Ty, Y)
MatSub4(A, B) == MatAdd(A, MatScale(D(-1), B))
SameAlg(A, B) == A.tau = B.tau /\ A.phi = B.phi /\ A.sigma = B.sigma
Pt == <<D(1), D(-2), D(3)>>
Pt4 == <<D(1), D(-2), D(3), D(2)>>

\* (1) two transcriptions agree
PX == P!Elem(EX.t, EX.q, EX.s)
PY == P!Elem(EY.t, EY.q, EY.s)
RingAgreesWithExact ==
  /\ P!Mul(PX, PY) = E!Mul(EX, EY)
  /\ P!Inv(PX) = E!Inv(EX)
  /\ P!Act3(PX, Pt) = E!Act3(EX, Pt)
  /\ P!Act4(PX, Pt4) = E!Act4(EX, Pt4)
  /\ P!Mat4(PX) = E!Mat4(EX)
  /\ \A i \in Basis : /\ SameAlg(P!Adj(PX, EA(i)), E!Adj(EX, EA(i)))
                      /\ SameAlg(P!AdjT(PX, EA(i)), E!AdjT(EX, EA(i)))

\* (2) per-operator Jacobians
MulJac ==
  \A i \in Basis :
    /\ SameAlg((LeftTangent(R!Mul(PertG(Ty, X, i), GY))), EA(i))
    /\ SameAlg((LeftTangent(R!Mul(GX, PertG(Ty, Y, i)))), E!Adj(EX, EA(i)))
InvJac ==
  \A i \in Basis :
    LET want == E!Adj(E!Inv(EX), EA(i)) IN
    SameAlg((LeftTangent(R!Inv(PertG(Ty, X, i)))),
            [tau |-> VNeg(want.tau), phi |-> VNeg(want.phi), sigma |-> DNeg(want.sigma)])
ActJac ==
  LET q == E!Act3(EX, Pt) IN
  \A i \in Basis :
    LET a  == EA(i)
        d  == R!Act3(PertG(Ty, X, i), Lift(Pt))
        w  == VAdd(VAdd(a.tau, Cross(a.phi, q)), VScale(a.sigma, q)) IN
    <<Du(d[1]), Du(d[2]), Du(d[3])>> = w
ActPointJac ==
  \A j \in 1..3 :
    LET d == R!Act3(GX, Seed(Pt, j))
        M == E!Mat3(EX) IN
    <<Du(d[1]), Du(d[2]), Du(d[3])>> = <<M[1][j], M[2][j], M[3][j]>>
AdjJac ==
  \A i \in Basis : \A j \in (IF Deep THEN Basis ELSE {1, n}) :
    LET a == EA(j)
        \* d/de Adj(Exp(e b) X, a) = [b, Adj(X) a]
        c == E!Adj(EX, a)
        comm == E!Vee4(MatSub4(MatMul(E!Hat4(EA(i)), E!Hat4(c)), MatMul(E!Hat4(c), E!Hat4(EA(i)))))
    IN  /\ SameAlg(DuA(R!Adj(PertG(Ty, X, i), DecA(Ty, Lift(E!EncodeAlg(Ty, a))))), comm)
        /\ SameAlg(DuA(R!Adj(GX, DecA(Ty, Seed(E!EncodeAlg(Ty, a), i)))), E!Adj(EX, EA(i)))
        /\ SameAlg(DuA(R!AdjT(GX, DecA(Ty, Seed(E!EncodeAlg(Ty, a), i)))), E!AdjT(EX, EA(i)))
ExpLogFirstOrder ==
  HasT =>
  \A i \in Basis :
    LET x0 == E!EncodeAlg(Ty, E!Alg(E!Decode(Ty, X).t, <<DZero, DZero, DZero>>, DZero))
        A  == DecA(Ty, Seed(x0, i))
        Z  == R!ExpNearTrans(A)
        B  == R!LogNearTrans(Z) IN
    /\ EncA(Ty, B) = EncA(Ty, A)                                  \* Log(Exp(x)) = x to first order
    /\ IsTransG(Z)
================================================================================
