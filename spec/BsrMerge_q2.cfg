\* quick: every pattern pair on a 3x2 . 2x3 block grid (64 x 64 pairs)
SPECIFICATION Spec
CONSTANTS
  SM = 3
  SN = 2
  SP = 3
INVARIANT K2InRange
INVARIANT HitsAreMatches
INVARIANT VisitsExactly
INVARIANT IndexConsistent
INVARIANT RunAgrees
CHECK_DEADLOCK FALSE
