----------------------------- MODULE ConvertTrace -----------------------------
(* Validates what the real conversion functions of pypose RETURNED against Convert.tla.    *)
(*                                                                                          *)
(* Trace kinds (cfg.kind); every event carries seq = its position (a deleted or reordered   *)
(* event is a "harness_sequence" error) and cfg.n = the number of events:                   *)
(*  "exact"  Mode E, on the lattice of Convert (numbers are dyadics [m, e] = m 2^-e):        *)
(*     from      mat2SO3/mat2SE3/mat2Sim3/mat2RxSO3/from_matrix(U) in one layout: TLC decides  *)
(*               from U whether it is a (scaled) rotation; if so the call must not raise and  *)
(*               the result must be a valid element with the same matrix / translation /      *)
(*               scale (quaternion modulo sign), and equal Convert!FromMatrix; if not, it     *)
(*               must raise ValueError.                                                       *)
(*     fromsq2   the same for the cube rotations whose quaternion has entries sqrt(2)/2: the  *)
(*               harness logs the integer numerators round(q sqrt 2) and the distance of q    *)
(*               from numerators/sqrt 2 in eps; TLC checks Rot(numerators)/2 = matrix.         *)
(*     matrix    X.matrix() of a lattice element (sets the state), then                       *)
(*     from_last from_matrix of THAT tensor (sliced to a layout): same element back.          *)
(*     euler     X.euler() for a quaternion of the binary octahedral group: quarter-turn       *)
(*               indices of the returned angles + distance in eps; TLC: principal ranges and   *)
(*               Rz Ry Rx of the indices = matrix of X (outside the gimbal band only).         *)
(*     euler2    euler2SO3 at quarter-turn multiples: rounded matrix of the result + distance.  *)
(*  "num"    Mode R: integer error measures (units of eps of the dtype, capped at 10^9) taken  *)
(*           against 60-digit references; tolerances and verdicts are here:                    *)
(*     nfrom     mat2* / from_matrix on a float matrix: rotation-block, translation, scale,     *)
(*               unit-norm errors of the result against the INPUT matrix; the three comparison   *)
(*               bits of the input select the branch region (named in the clause).               *)
(*     ne2       euler2SO3 against Rz(yaw) Ry(pitch) Rx(roll).                                   *)
(*     nert      euler2SO3(X.euler()) against X, and the principal ranges of the angles; g =      *)
(*               decade of the distance of |sin pitch| from 1 (inputs inside the documented      *)
(*               gimbal band are not generated and not judged).                                  *)
(*     check     check=True on a perturbed / invalid / valid input: the class (must-accept,       *)
(*               must-reject, unspecified) is Convert!PertClass; only raised / not raised is       *)
(*               logged.                                                                          *)
(* Verdicts are total: every event is consumed, the first failing clause is named                *)
(* "clause@index"; clauses starting with "harness_" mean the log itself is inconsistent.          *)
EXTENDS LieExact, Json, IOUtils

Traces == JsonDeserialize(IOEnv.TRACE_FILE)

C == INSTANCE Convert WITH TCoords <- {}, ScaleExps <- {}, PertKs <- {}, TolEs <- {}, EulerKMax <- 0,
                           call <- "idle", arg <- <<>>, ret <- <<>>

VARIABLES tid, l, st, verdict
\* st = [has |-> a "matrix" event was seen, ty, X |-> its element, M |-> the matrix it returned]

\* ------------------------------------------------------------------ tolerances (units: eps of the dtype)
\* each constant is >= 4x the largest value measured on the unchanged tree (notes/C11.md)
Tol(chk) ==
  CASE chk = "rot"      -> 32      \* rotation block of the result vs the input matrix, relative to the scale
    [] chk = "trans"    -> 0       \* the translation column is copied
    [] chk = "scale"    -> 32      \* s vs det^(1/3)
    [] chk = "unit"     -> 16      \* | |q| - 1 |
    [] chk = "qsqrt2"   -> 16      \* q vs numerators / sqrt 2 on the cube rotations
    [] chk = "e2"       -> 32      \* euler2SO3 vs Rz Ry Rx (matrix, absolute)
    [] chk = "eulerq"   -> 16      \* angles at quarter-turn multiples
    [] chk = "range"    -> 4       \* excess of |angle| over pi resp. pi/2, relative
    [] OTHER            -> 0
\* Euler round trip: pitch = asin(t2) loses 1/cos(pitch) = (2 (1 - |sin pitch|))^(-1/2) digits:
\* g = decade of 1 - |sin pitch| (0: >= 0.1, 1: >= 1e-2, 2: >= 1e-3, 3: >= 4e-4 = twice the default gimbal eps,
\* 4: between 1.25 and 2 times the gimbal eps in use (default 2e-4, or a caller-chosen 1e-5: loss factor up to 200))
ErtTol(g) == CASE g = 0 -> 32 [] g = 1 -> 64 [] g = 2 -> 128 [] g = 3 -> 256 [] g = 4 -> 1024 [] OTHER -> 0

\* ------------------------------------------------------------------ decoding
RowsOf(lay) == IF lay = "44" THEN 4 ELSE 3
ColsOf(lay) == IF lay = "33" THEN 3 ELSE 4
ToMat(lay, u) == TLCEval([i \in 1..RowsOf(lay) |-> [j \in 1..ColsOf(lay) |-> u[(i - 1) * ColsOf(lay) + j]]])
Flat(Mx) == IF Len(Mx) = 3 THEN Mx[1] \o Mx[2] \o Mx[3] ELSE Mx[1] \o Mx[2] \o Mx[3] \o Mx[4]
Slice(U, lay) == IF lay = "33" THEN C!Sub33(U)
                 ELSE IF lay = "34" THEN <<U[1], U[2], U[3]>> ELSE U
LayOf(U) == IF Len(U) = 4 THEN "44" ELSE IF Len(U[1]) = 4 THEN "34" ELSE "33"
WellFormed(ty, v) == Len(v) = GroupDim(ty)
\* the harness encodes a value that is not on the 2^-12 lattice (nan, inf, an inexact result) by this pair
Sentinel == <<999999937, 0>>
OnLattice(v) == \A i \in DOMAIN v : v[i] # Sentinel

\* the property on one result: returns the failing clause or "ok"
ResultClause(ty, U, out) ==
  IF ~WellFormed(ty, out) THEN "shape"
  ELSE IF ~OnLattice(out) THEN "inexact_on_lattice"
  ELSE LET Z == Decode(ty, out)
           A == C!Sub33(U)
           r == C!FromMatrix(ty, U, TRUE, C!DefaultTolE, C!DefaultTolE) IN
    IF QNorm2(Z.q) # DOne THEN "unit_quaternion"
    ELSE IF C!HasS(ty) /\ Z.s # C!CubeRootD(C!Det3(A)) THEN "scale"
    ELSE IF ~Valid(ty, Z) THEN "valid_out"
    ELSE IF Mat3(Z) # A THEN "same_matrix"
    ELSE IF Z.t # (IF C!HasT(ty) /\ Len(U[1]) = 4 THEN C!Col4(U) ELSE VZero(3)) THEN "translation"
    ELSE IF r.raised THEN "harness_spec_raises"
    ELSE IF ~r.offlattice /\ ~SameElem(Z, r.X) THEN "spec_formula"
    ELSE "ok"

ExactClause(s, e) ==
  CASE e.op = "from" ->
         LET U == ToMat(e.lay, e.U) IN
         IF C!IsScaledRotation(e.ty, C!Sub33(U))
         THEN IF e.raised THEN "raised_on_valid" ELSE ResultClause(e.ty, U, e.out)
         ELSE IF ~e.raised THEN "accepted_invalid"
         ELSE IF e.exc # "ValueError" THEN "wrong_exception" ELSE "ok"
    [] e.op = "fromsq2" ->
         LET U  == ToMat(e.lay, e.U)
             A  == C!Sub33(U)
             sc == IF C!HasS(e.ty) THEN e.s[1] ELSE DOne IN
         IF e.raised THEN "raised_on_valid"
         ELSE IF ~OnLattice(e.t) \/ ~OnLattice(e.s) THEN "inexact_on_lattice"
         ELSE IF C!N2(e.qn) # 2 THEN "unit_quaternion"
         ELSE IF e.qerr > Tol("qsqrt2") THEN "unit_quaternion_accuracy"
         ELSE IF C!HasS(e.ty) /\ sc # C!CubeRootD(C!Det3(A)) THEN "scale"
         ELSE IF MatScale(sc, C!RotN(e.qn)) # A THEN "same_matrix"
         ELSE IF e.t # (IF C!HasT(e.ty) /\ Len(U[1]) = 4 THEN C!Col4(U) ELSE VZero(3)) THEN "translation"
         ELSE "ok"
    [] e.op = "matrix" ->
         IF ~WellFormed(e.ty, e.x) \/ ~Valid(e.ty, Decode(e.ty, e.x)) THEN "harness_input"
         ELSE IF e.out # Flat(MatrixOf(e.ty, Decode(e.ty, e.x))) THEN "matrix" ELSE "ok"
    [] e.op = "from_last" ->
         IF ~s.has THEN "matrix_unusable"
         ELSE LET U == Slice(s.M, e.lay)
                  X == Elem(IF Len(U[1]) = 4 THEN s.X.t ELSE VZero(3), s.X.q, s.X.s) IN
              IF e.raised THEN "raised_on_valid"
              ELSE LET rc == ResultClause(s.ty, U, e.out) IN
                   IF rc # "ok" THEN rc
                   ELSE IF ~SameElem(Decode(s.ty, e.out), X) THEN "roundtrip" ELSE "ok"
    [] e.op = "euler" ->
         LET x == C!EulerOf(e.qn) IN
         IF ~x.regular THEN "ok"                                    \* inside the gimbal band: not judged
         ELSE IF ~(e.idx[1] \in -2..2 /\ e.idx[2] \in -1..1 /\ e.idx[3] \in -2..2) THEN "principal_range"
         ELSE IF C!EulerMat(e.idx[1], e.idx[2], e.idx[3]) # C!RotN(e.qn) THEN "euler_angles"
         ELSE IF e.err > Tol("eulerq") THEN "euler_accuracy" ELSE "ok"
    [] e.op = "euler2" ->
         IF C!DM(<<e.M[1], e.M[2], e.M[3]>>) # C!EulerMat(e.k[1], e.k[2], e.k[3]) THEN "euler2_matrix"
         ELSE IF e.err > Tol("e2") * (1 + C!Abs(e.k[1]) + C!Abs(e.k[2]) + C!Abs(e.k[3])) THEN "euler2_accuracy"
         ELSE "ok"
    [] OTHER -> "harness_unknown_op"

\* ------------------------------------------------------------------ numeric events
BranchName(m) == LET b == C!BranchesOf(C!MasksOf(m[1], m[2], m[3])) IN "_b" \o ToString(CHOOSE x \in b : TRUE)

NumClause(e) ==
  CASE e.op = "nfrom" ->
         IF e.raised THEN "raised_on_valid" \o BranchName(e.m)
         ELSE IF ~e.finite THEN "nonfinite" \o BranchName(e.m)
         ELSE IF e.rot > Tol("rot") THEN "same_matrix" \o BranchName(e.m)
         ELSE IF e.un > Tol("unit") THEN "unit_quaternion" \o BranchName(e.m)
         ELSE IF e.tr > Tol("trans") THEN "translation"
         ELSE IF e.sc > Tol("scale") THEN "scale"
         ELSE "ok"
    [] e.op = "ne2" ->
         IF ~e.finite THEN "nonfinite_euler2SO3"
         ELSE IF e.rot > Tol("e2") + e.allow THEN "euler2SO3_RzRyRx"
         ELSE IF e.un > Tol("unit") THEN "euler2SO3_unit" ELSE "ok"
    [] e.op = "nert" ->
         IF e.g \notin 0..4 THEN "ok"                                 \* inside / too close to the gimbal band: not judged
         ELSE IF ~e.finite THEN "nonfinite_euler"
         ELSE IF e.rng > Tol("range") THEN "principal_range"
         ELSE IF e.rot > ErtTol(e.g) THEN "euler_roundtrip_g" \o ToString(e.g)
         ELSE "ok"
    [] e.op = "check" ->
         LET cl == C!PertClass(e.ty, e.pk, e.k, e.E) IN
         IF e.Er # e.E /\ e.pk # "shear" THEN "harness_tolerances"   \* E = atol exponent; rtol differs only for shears
         ELSE IF e.raised /\ e.exc # "ValueError" THEN "wrong_exception"
         ELSE IF cl = "accept" /\ e.raised THEN "raised_on_valid"
         ELSE IF cl = "reject" /\ ~e.raised THEN "accepted_invalid"
         ELSE "ok"
    [] OTHER -> "harness_unknown_op"

IsNum(e) == e.op \in {"nfrom", "ne2", "nert", "check"}

Init == tid \in 1..Len(Traces) /\ l = 1 /\ verdict = "ok"
        /\ st = [has |-> FALSE, ty |-> "SO3", X |-> Id, M |-> Ident(3)]

Next ==
  LET T == Traces[tid] IN
  /\ l <= Len(T.ev)
  /\ LET e  == T.ev[l]
         c0 == IF e.seq # l THEN "harness_sequence"
               ELSE IF l = Len(T.ev) /\ T.cfg.n # l THEN "harness_truncated"
               ELSE IF IsNum(e) THEN NumClause(e) ELSE ExactClause(st, e) IN
       /\ verdict' = IF verdict = "ok" /\ c0 # "ok" THEN c0 \o "@" \o ToString(l) ELSE verdict
       /\ st' = IF e.op = "matrix" /\ WellFormed(e.ty, e.x) /\ OnLattice(e.out)
                           /\ Len(e.out) = (IF e.ty = "SO3" THEN 9 ELSE 16)
                THEN [has |-> TRUE, ty |-> e.ty, X |-> Decode(e.ty, e.x),
                      M |-> ToMat(IF e.ty = "SO3" THEN "33" ELSE "44", e.out)]
                ELSE st
       /\ (l = Len(T.ev)) => PrintT(<<"VERDICT", tid, verdict'>>)
  /\ l' = l + 1 /\ UNCHANGED tid

Spec == Init /\ [][Next]_<<tid, l, st, verdict>>
================================================================================
