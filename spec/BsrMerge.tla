------------------------------- MODULE BsrMerge -------------------------------
(* The two-pointer merge-join of pypose.sparse.ops.bsr_bsc_matmul, transcribed loop  *)
(* by loop.  A is a block-CSR matrix on an SM x SN block grid, B a block-CSC matrix   *)
(* on an SN x SP grid; only the block *patterns* matter for the loop:                 *)
(*                                                                                    *)
(*   for i in range(sm):                                             "row"            *)
(*     for j in range(sp):                                           "col"            *)
(*       nz = False;  k2 = ccol[j]                                                    *)
(*       for k1 in range(crow[i], crow[i+1]):                        "k1"             *)
(*         if k2 == ccol[j+1]: break                                                  *)
(*         while row[k2] < col[k1] and k2 < ccol[j+1] - 1: k2 += 1   "adv"            *)
(*         if row[k2] == col[k1]:                                    "match"          *)
(*           index.append(result_step); source.append(k1, k2); nz = True              *)
(*       if nz: result_step += 1; coo.append(i, j)                   "endcol"         *)
(*                                                                                    *)
(* afterwards values[index[t]] += A.values[k1_t] @ B.values[k2_t] and block index[t]  *)
(* is stored at block position coo[index[t]].  All indices are 0-based as in the      *)
(* code; arrays are functions over 0..len-1.                                          *)
(*                                                                                    *)
(* Every loop label is one action; each action is s' = <Label>Step(m, s), so that the *)
(* trace / generator modules can run the same transition function (RunMerge).         *)
EXTENDS Naturals, Integers, Sequences, FiniteSets, TLC

CONSTANTS SM, SN, SP          \* block-grid sizes: A is SM x SN blocks, B is SN x SP blocks

VARIABLES pa,   \* pattern of A: set of <<i, k>>, 0 <= i < SM, 0 <= k < SN
          pb,   \* pattern of B: set of <<k, j>>, 0 <= k < SN, 0 <= j < SP
          m,    \* compressed index arrays [crow, col, ccol, row] derived from pa, pb
          s     \* loop state [pc, i, j, k1, k2, nz, step, src, coo]

vars == <<pa, pb, m, s>>

\* ---------------------------------------------------------------- compressed layouts
Min(S) == CHOOSE x \in S : \A y \in S : x <= y
RECURSIVE SortedSeq(_)
SortedSeq(S) == IF S = {} THEN <<>> ELSE LET x == Min(S) IN <<x>> \o SortedSeq(S \ {x})

RECURSIVE Concat(_, _)          \* f[0] \o f[1] \o ... \o f[n-1]
Concat(f, n) == IF n = 0 THEN <<>> ELSE Concat(f, n - 1) \o f[n - 1]

ZeroBased(q) == [t \in 0..(Len(q) - 1) |-> q[t + 1]]

\* CSR of a pattern P (set of <<r, c>>) with nr rows: crow (0..nr), col (0..nnz-1), sorted columns
Compress(P, nr) ==
  LET line(r) == SortedSeq({e[2] : e \in {x \in P : x[1] = r}})
      cnt(r)  == Cardinality({x \in P : x[1] < r})
  IN  [ptr |-> [r \in 0..nr |-> cnt(r)],
       idx |-> ZeroBased(Concat([r \in 0..(nr - 1) |-> line(r)], nr))]

Transpose(P) == {<<e[2], e[1]>> : e \in P}

Layout(A, B, sm, sp) ==
  LET ca == Compress(A, sm)
      cb == Compress(Transpose(B), sp)
  IN  [crow |-> ca.ptr, col |-> ca.idx, ccol |-> cb.ptr, row |-> cb.idx]

\* ---------------------------------------------------------------- the loop, label by label
InitLoop == [pc |-> "row", i |-> 0, j |-> 0, k1 |-> 0, k2 |-> 0, nz |-> FALSE, step |-> 0,
             src |-> <<>>,     \* one record [i, j, k1, k2, idx] per appended (index, source) pair
             coo |-> <<>>]     \* appended <<i, j>> block coordinates; coo[t+1] is result block t

RowStep(d, mm, st) ==          \* for i in range(sm)
  IF st.i < d.sm THEN [st EXCEPT !.pc = "col", !.j = 0] ELSE [st EXCEPT !.pc = "done"]

ColStep(d, mm, st) ==          \* for j in range(sp): nz = False; k2 = ccol[j]; k1 = crow[i]
  IF st.j < d.sp
  THEN [st EXCEPT !.pc = "k1", !.nz = FALSE, !.k2 = mm.ccol[st.j], !.k1 = mm.crow[st.i]]
  ELSE [st EXCEPT !.pc = "row", !.i = st.i + 1]

K1Step(d, mm, st) ==           \* loop test of k1 and the `break` on an exhausted / empty column
  IF st.k1 < mm.crow[st.i + 1] /\ st.k2 # mm.ccol[st.j + 1]
  THEN [st EXCEPT !.pc = "adv"] ELSE [st EXCEPT !.pc = "endcol"]

AdvStep(d, mm, st) ==          \* while row[k2] < col[k1] and k2 < ccol[j+1] - 1: k2 += 1
  IF mm.row[st.k2] < mm.col[st.k1] /\ st.k2 < mm.ccol[st.j + 1] - 1
  THEN [st EXCEPT !.k2 = st.k2 + 1] ELSE [st EXCEPT !.pc = "match"]

MatchStep(d, mm, st) ==        \* if row[k2] == col[k1]: record; then next k1
  IF mm.row[st.k2] = mm.col[st.k1]
  THEN [st EXCEPT !.pc = "k1", !.k1 = st.k1 + 1, !.nz = TRUE,
                  !.src = Append(st.src, [i |-> st.i, j |-> st.j, k1 |-> st.k1, k2 |-> st.k2,
                                          idx |-> st.step])]
  ELSE [st EXCEPT !.pc = "k1", !.k1 = st.k1 + 1]

EndColStep(d, mm, st) ==       \* if nz: result_step += 1; coo.append(i, j);  then next j
  IF st.nz
  THEN [st EXCEPT !.pc = "col", !.j = st.j + 1, !.step = st.step + 1,
                  !.coo = Append(st.coo, <<st.i, st.j>>)]
  ELSE [st EXCEPT !.pc = "col", !.j = st.j + 1]

MStep(d, mm, st) ==
  CASE st.pc = "row"    -> RowStep(d, mm, st)
    [] st.pc = "col"    -> ColStep(d, mm, st)
    [] st.pc = "k1"     -> K1Step(d, mm, st)
    [] st.pc = "adv"    -> AdvStep(d, mm, st)
    [] st.pc = "match"  -> MatchStep(d, mm, st)
    [] st.pc = "endcol" -> EndColStep(d, mm, st)
    [] OTHER            -> st

RECURSIVE RunFrom(_, _, _)
RunFrom(d, mm, st) == IF st.pc = "done" THEN st ELSE RunFrom(d, mm, MStep(d, mm, st))

\* the whole loop as a function of the two patterns (used by BsrMergeGen / BsrMergeTrace)
RunMerge(A, B, sm, sp) == RunFrom([sm |-> sm, sp |-> sp], Layout(A, B, sm, sp), InitLoop)

\* ---------------------------------------------------------------- the state machine
Dims == [sm |-> SM, sp |-> SP]

Init ==
  /\ pa \in SUBSET ((0..(SM - 1)) \X (0..(SN - 1)))
  /\ pb \in SUBSET ((0..(SN - 1)) \X (0..(SP - 1)))
  /\ m = Layout(pa, pb, SM, SP)
  /\ s = InitLoop

RowLoop == s.pc = "row"    /\ s' = RowStep(Dims, m, s)    /\ UNCHANGED <<pa, pb, m>>
ColLoop == s.pc = "col"    /\ s' = ColStep(Dims, m, s)    /\ UNCHANGED <<pa, pb, m>>
K1Loop  == s.pc = "k1"     /\ s' = K1Step(Dims, m, s)     /\ UNCHANGED <<pa, pb, m>>
Advance == s.pc = "adv"    /\ s' = AdvStep(Dims, m, s)    /\ UNCHANGED <<pa, pb, m>>
Match   == s.pc = "match"  /\ s' = MatchStep(Dims, m, s)  /\ UNCHANGED <<pa, pb, m>>
EndCol  == s.pc = "endcol" /\ s' = EndColStep(Dims, m, s) /\ UNCHANGED <<pa, pb, m>>

Next == RowLoop \/ ColLoop \/ K1Loop \/ Advance \/ Match \/ EndCol
Spec == Init /\ [][Next]_vars /\ WF_vars(Next)

\* ---------------------------------------------------------------- properties
Range(q) == {q[t] : t \in DOMAIN q}

\* the block products the dense product needs
Needed(A, B) == {<<p[1][1], p[2][2], p[1][2]>> : p \in {q \in A \X B : q[1][2] = q[2][1]}}  \* <<i, j, k>>

Visited(mm, st) == {<<h.i, h.j, mm.col[h.k1]>> : h \in Range(st.src)}

\* k2 is only ever used as an index into column j's slice of `row` (and is in bounds)
K2InRange ==
  /\ s.pc \in {"adv", "match"} =>
       /\ m.ccol[s.j] <= s.k2 /\ s.k2 < m.ccol[s.j + 1]
       /\ s.k2 \in DOMAIN m.row /\ s.k1 \in DOMAIN m.col
       /\ m.crow[s.i] <= s.k1 /\ s.k1 < m.crow[s.i + 1]
  /\ s.pc \in {"k1", "endcol"} => (m.ccol[s.j] <= s.k2 /\ s.k2 <= m.ccol[s.j + 1])

\* every recorded pair really is a matching pair of row i / column j
HitsAreMatches ==
  \A h \in Range(s.src) :
    /\ m.crow[h.i] <= h.k1 /\ h.k1 < m.crow[h.i + 1]
    /\ m.ccol[h.j] <= h.k2 /\ h.k2 < m.ccol[h.j + 1]
    /\ m.col[h.k1] = m.row[h.k2]

\* no needed product is skipped by the time the (i, j) pair is left, none is visited twice
VisitsExactly ==
  s.pc = "done" =>
    /\ Visited(m, s) = Needed(pa, pb)
    /\ Len(s.src) = Cardinality(Needed(pa, pb))

\* the scatter index of every product points at the output block of its own (i, j);
\* output blocks are distinct and are exactly the structurally non-zero ones
IndexConsistent ==
  /\ s.step = Len(s.coo)
  /\ \A h \in Range(s.src) :
       \/ (h.idx < Len(s.coo) /\ s.coo[h.idx + 1] = <<h.i, h.j>>)
       \/ (h.idx = Len(s.coo) /\ h.i = s.i /\ h.j = s.j /\ s.pc \in {"k1", "adv", "match", "endcol"})
  /\ \A a, b \in DOMAIN s.coo : a # b => s.coo[a] # s.coo[b]
  /\ s.pc = "done" => Range(s.coo) = {<<t[1], t[2]>> : t \in Needed(pa, pb)}

\* the functional form used by the binding modules agrees with the state machine
RunAgrees == s.pc = "done" => RunMerge(pa, pb, SM, SP) = s

Terminates == <>(s.pc = "done")
================================================================================
