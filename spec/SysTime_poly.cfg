\* the linearisation identities over the scalar grammar (polynomials with <= 2 terms, coefficients {-2,1} x {1},
\* (x,u)-degree <= 3, t-degree <= 2: 1 860 programs) at every reference point of {2,-1} x {2,-3} x {0,2}
SPECIFICATION Spec
CONSTANTS
  Classes = {"NLS"}
  TimeVals = {0, 2}
  MaxLen = 1
  KeepHist = FALSE
  Rich = TRUE
  ProgIds = {0}
  AliasRefTime = FALSE
CONSTRAINT Bound
INVARIANT LinAtRef
INVARIANT SecondOrder
INVARIANT GrammarClosed
CHECK_DEADLOCK FALSE
