\* thorough: exact CG (tol = 2^-15) on every SPD matrix of order 1..3 with entries -2..2, every rhs with entries -1..1; no guess, no preconditioner
SPECIFICATION Spec
CONSTANTS
  Mode = "cg"
  Dims = {1,2,3}
  EMax = 2
  BMax = 1
  BUnit = FALSE
  LDims = {}
  LMax = 0
  UseX0 = FALSE
  X0Max = 0
  PrecMax = 0
  PrecFull = FALSE
  TolD = 32768
INVARIANT ResidualIsTrue
INVARIANT IterBound
INVARIANT ZeroResidualAtN
INVARIANT ResidualOrthP
INVARIANT ReturnMeetsTol
INVARIANT ExactWhenZero
INVARIANT ZeroRhs
INVARIANT RunAgrees
CHECK_DEADLOCK FALSE
