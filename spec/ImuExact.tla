------------------------------- MODULE ImuExact -------------------------------
(* Exact sub-model of the IMU preintegrator on a lattice where IEEE arithmetic is exact: *)
(* zero angular rate (every rotation increment is the identity, the rotation stays the    *)
(* initial one), dyadic dt / acceleration / gravity / initial velocity and position, and  *)
(* rotations (initial, and "known" rotations used to remove gravity) taken from the 24    *)
(* Hurwitz unit quaternions, whose rotation matrices are signed permutations.             *)
(*                                                                                        *)
(* Two transcriptions of the documentation, over exact dyadic rationals <<m, e>>:         *)
(*  (D) preintegration  Dv <- Dv + a dt,  Dp <- Dp + Dv dt + 1/2 a dt^2,  Dt <- Dt + dt   *)
(*      composed with the initial state   v = v_i + R_i Dv,   p = p_i + R_i Dp + v_i Dt   *)
(*      (one call = one such composition; the buffers become the last row)                *)
(*  (W) the sequential recursion on the state itself                                      *)
(*      p <- p + v dt + 1/2 R a dt^2,   v <- v + R a dt                                   *)
(* with  a = acc - R_k^-1 (0, 0, g)  (R_k the supplied rotation, else the integrated one).*)
(* TLC checks  (D) chained over ANY chunking  =  (W)  for every stream of the lattice     *)
(* box of the config; ImuTrace recomputes (D) from logged integer inputs of real runs.    *)
EXTENDS LieExact

CONSTANTS XF,       \* set of stream lengths
          Box       \* "q" | "t" | "none": which lattice box the enumerating state machine uses

\* cfg files cannot hold tuples, so the boxes are stated here
Q1   == QOne                                              \* identity
Qi   == <<DOne, DZero, DZero, DZero>>                     \* half turn about x
Qh   == <<DHalf, DNeg(DHalf), DHalf, DHalf>>              \* third of a turn about (1,-1,1)
Qh2  == <<DNeg(DHalf), DHalf, DHalf, DNeg(DHalf)>>
Qk   == <<DZero, DZero, DOne, DZero>>
XDt  == IF Box = "q" THEN {<<1, 1>>, <<1, 0>>} ELSE {<<1, 3>>, <<2, 0>>}
XAcc == IF Box = "q" THEN {<<D(1), <<-3, 1>>, D(2)>>, <<DZero, <<1, 2>>, D(-1)>>}
        ELSE {<<D(-5), D(3), <<7, 1>>>>, <<<<3, 2>>, DZero, D(-2)>>}
XRot == IF Box = "q" THEN {Q1, Qh} ELSE {Q1, Qi, Qh2}             \* initial rotations
XRk  == IF Box = "q" THEN {Qh} ELSE {Qk, Qh}                      \* supplied ("known") rotations
XG   == IF Box = "q" THEN {DZero, D(8)} ELSE {DZero, <<39, 2>>}
XV0  == {<<DHalf, DZero, D(-1)>>}

VARIABLES stream,   \* sequence of frames [dt, acc, rk]   (rk = <<>> : use the integrated rotation)
          g, k, S, W, rows, wrows

xvars == <<stream, g, k, S, W, rows, wrows>>

GVec(gg) == <<DZero, DZero, gg>>
RkOf(fr, q) == IF fr.rk = <<>> THEN q ELSE fr.rk
\* acceleration with gravity removed, body frame:  acc - R^-1 g
ABody(fr, q, gg) == VSub(fr.acc, MatVec(Rot(QConj(RkOf(fr, q))), GVec(gg)))

\* ---- (D) preintegrated increments of a chunk (zero angular rate) and composition with the state
D0 == [dv |-> VZero(3), dp |-> VZero(3), dt |-> DZero]
DStep(inc, fr, q, gg) ==
  LET a == ABody(fr, q, gg) IN
  [dv |-> VAdd(inc.dv, VScale(fr.dt, a)),
   dp |-> VAdd(VAdd(inc.dp, VScale(fr.dt, inc.dv)), VScale(DMul(DHalf, DMul(fr.dt, fr.dt)), a)),
   dt |-> DAdd(inc.dt, fr.dt)]
XPredict(St, inc) ==
  [q |-> St.q,
   v |-> VAdd(St.v, MatVec(Rot(St.q), inc.dv)),
   p |-> VAdd(VAdd(St.p, MatVec(Rot(St.q), inc.dp)), VScale(inc.dt, St.v))]
RECURSIVE DFold(_, _, _, _)
DFold(frs, i, q, gg) == IF i = 0 THEN D0 ELSE DStep(DFold(frs, i - 1, q, gg), frs[i], q, gg)
\* rows returned by one call on the chunk frs from the state St
XCall(St, frs, gg) == [i \in 1..Len(frs) |-> XPredict(St, DFold(frs, i, St.q, gg))]

\* ---- (W) the recursion on the state itself
XWorld(St, fr, gg) ==
  LET Ra == MatVec(Rot(St.q), ABody(fr, St.q, gg)) IN
  [q |-> St.q,
   v |-> VAdd(St.v, VScale(fr.dt, Ra)),
   p |-> VAdd(VAdd(St.p, VScale(fr.dt, St.v)), VScale(DMul(DHalf, DMul(fr.dt, fr.dt)), Ra))]

SameRot(a, b) == a = b \/ a = QNeg(b)
SameState(a, b) == SameRot(a.q, b.q) /\ a.v = b.v /\ a.p = b.p

\* ---- enumerating state machine: all streams of the box, all chunkings
Frames == [dt : XDt, acc : XAcc, rk : XRk \cup {<<>>}]
Init ==
  /\ \E f \in XF : stream \in [1..f -> Frames]
  /\ g \in XG
  /\ k = 0
  /\ S \in [q : XRot, v : XV0, p : {<<D(1), D(-2), DZero>>}]
  /\ W = S
  /\ rows = <<>> /\ wrows = <<>>

RECURSIVE WFold(_, _, _, _)
WFold(St, frs, i, gg) == IF i = 0 THEN St ELSE XWorld(WFold(St, frs, i - 1, gg), frs[i], gg)

Call(len) ==
  /\ k + len <= Len(stream)
  /\ LET frs == SubSeq(stream, k + 1, k + len) IN
       /\ rows'  = XCall(S, frs, g)                       \* one forward call from the buffers
       /\ S'     = rows'[len]                             \* reset=False: buffers := last row
       /\ wrows' = [i \in 1..len |-> WFold(W, frs, i, g)] \* the recursion, frame by frame
       /\ W'     = wrows'[len]
  /\ k' = k + len
  /\ UNCHANGED <<stream, g>>

Next == \E len \in 1..Len(stream) : Call(len)
Spec == Init /\ [][Next]_xvars

\* the chained compositions equal the recursion, whatever the chunking ...
ChunkedIsRecursion == SameState(S, W)
\* ... and so does every row of every call
RowsAreRecursion == \A i \in DOMAIN rows : SameState(rows[i], wrows[i])
UnitRot == QNorm2(S.q) = DOne
================================================================================
