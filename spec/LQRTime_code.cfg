\* the code as it is on the unrepaired tree (named deviation StaleStart): TLC exhibits the shortest history in
\* which a stage evaluates the dynamics at a stale time index.  Expected to VIOLATE StageUsesOwnIndex.
SPECIFICATION Spec
CONSTANTS
  Classes = {"LTI", "LTV", "NLS"}
  Horizons = {1, 2, 3, 4}
  MaxSolves = 3
  MaxUser = 3
  TimeVals = {0, 2, 5}
  Deviation = TRUE
INVARIANT TypeOK
INVARIANT StageUsesOwnIndex
CHECK_DEADLOCK FALSE
