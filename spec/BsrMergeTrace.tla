----------------------------- MODULE BsrMergeTrace -----------------------------
(* Judges recorded sparse products of pypose.sparse.ops (_sparse_csr_mm and              *)
(* bsr_bsc_matmul) with integer values.  An event carries the two operands and the        *)
(* result as dense integer matrices; TLC computes the dense product itself and demands    *)
(* equality (exact: integer arithmetic is exact in IEEE double).  For BSR x BSC events    *)
(* that also carry the stored block patterns, the product is recomputed a second time     *)
(* through the merge-join model (BsrMerge!RunMerge: sum of the visited block products      *)
(* scattered to their output blocks) and must agree as well, which ties the design         *)
(* model to the concrete values.                                                          *)
(*                                                                                        *)
(* event: [act |-> "spmm", pair, supported, out |-> "value" | "raise", A, B, C,           *)
(*         bs |-> <<dm, dn, dp>>, pa |-> <<<<i, k>>, ...>>, pb |-> <<<<k, j>>, ...>>,     *)
(*         model |-> BOOLEAN]                                                             *)
(* `supported` pairs must return a value; other layout pairs may fail loudly, but a       *)
(* returned value is always judged.                                                       *)
EXTENDS Naturals, Integers, Sequences, FiniteSets, TLC, Json, IOUtils

Traces == JsonDeserialize(IOEnv.TRACE_FILE)

M == INSTANCE BsrMerge WITH SM <- 0, SN <- 0, SP <- 0, pa <- {}, pb <- {}, m <- <<>>, s <- <<>>

VARIABLES tid, l, st, verdict

RECURSIVE SumF(_, _)
SumF(f, k) == IF k = 0 THEN 0 ELSE f[k] + SumF(f, k - 1)

Rows(X) == Len(X)
Cols(X) == Len(X[1])
MatMul(X, Y) ==
  TLCEval([i \in 1..Rows(X) |-> TLCEval([j \in 1..Cols(Y) |->
             SumF([k \in 1..Cols(X) |-> X[i][k] * Y[k][j]], Cols(X))])])

SetOf(q) == {q[t] : t \in DOMAIN q}

\* the product as bsr_bsc_matmul forms it: for every visited pair (k1, k2) of block (i, j),
\* A.block(i, col[k1]) @ B.block(row[k2], j) is added to output block (i, j)
ViaMerge(e) ==
  LET dm == e.bs[1]  dn == e.bs[2]  dp == e.bs[3]
      sm == Rows(e.A) \div dm  sp == Cols(e.B) \div dp
      PA == SetOf(e.pa)  PB == SetOf(e.pb)
      lay == M!Layout(PA, PB, sm, sp)
      run == M!RunFrom([sm |-> sm, sp |-> sp], lay, M!InitLoop)
      ks(i, j) == {lay.col[h.k1] : h \in {g \in M!Range(run.src) : g.i = i /\ g.j = j}}
      entry(r, c) ==
        LET i == (r - 1) \div dm  j == (c - 1) \div dp  K == ks(i, j) IN
        SumF([t \in 1..Cols(e.A) |-> IF ((t - 1) \div dn) \in K THEN e.A[r][t] * e.B[t][c] ELSE 0], Cols(e.A))
  IN  TLCEval([r \in 1..Rows(e.A) |-> TLCEval([c \in 1..Cols(e.B) |-> entry(r, c)])])

Clause(e) ==
  CASE e.act # "spmm" -> "unknown_event"
    [] e.out = "raise" -> IF e.supported THEN "raised" ELSE "ok"
    [] e.C # MatMul(e.A, e.B) -> "product_mismatch"
    [] e.model /\ ViaMerge(e) # e.C -> "machinery_model"
    [] OTHER -> "ok"

Init == tid \in 1..Len(Traces) /\ l = 1 /\ st = [judged |-> 0] /\ verdict = "ok"

Next ==
  LET T == Traces[tid] IN
  /\ l <= Len(T.ev)
  /\ LET e == T.ev[l]
         cl == IF e.i # l \/ (l = Len(T.ev) /\ T.cfg.n # l) THEN "event_sequence" ELSE Clause(e) IN
       /\ verdict' = IF verdict = "ok" /\ cl # "ok" THEN cl \o "@" \o ToString(l) ELSE verdict
       /\ st' = [judged |-> st.judged + 1]
       /\ (l = Len(T.ev)) => PrintT(<<"VERDICT", tid, verdict'>>)
  /\ l' = l + 1 /\ UNCHANGED tid

Spec == Init /\ [][Next]_<<tid, l, st, verdict>>
================================================================================
