SPECIFICATION Spec
CONSTANTS
  Ty = "RxSO3"
  TBox = 100000
  SBox = 12
  TDen = 20
  Deep = FALSE
CONSTRAINT InBox
CHECK_DEADLOCK FALSE
