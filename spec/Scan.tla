--------------------------------- MODULE Scan ---------------------------------
(* The log-step (Hillis-Steele) scan behind pypose.cumops_/cumprod_/cummul_ and the   *)
(* out-of-place wrappers.  Elements are taken from the free monoid restricted to      *)
(* contiguous words, represented as intervals <<lo, hi>> of factor indices; the       *)
(* product a . b is defined only if b continues a (a.hi + 1 = b.lo), so any wrong     *)
(* stride, missing round or swapped operand produces the element Bad.                 *)
(*                                                                                    *)
(* One action per round of the loop in cumops_ :                                      *)
(*     index = arange(s, L);  v[index] := ops(v[index - s], v[index])                 *)
(* (index_select happens before index_copy_, i.e. the update is simultaneous).        *)
(* Rounds whose stride is >= L have an empty index set: they are stuttering steps.    *)
EXTENDS Naturals, Integers, Sequences, TLC

CONSTANTS MaxL

VARIABLES L,      \* sequence length
          v,      \* current array, 1..L -> interval or Bad
          s,      \* stride of the next round
          rounds  \* effective rounds done

vars == <<L, v, s, rounds>>

Bad == <<0, 0>>
Cat(a, b) == IF a # Bad /\ b # Bad /\ a[2] + 1 = b[1] THEN <<a[1], b[2]>> ELSE Bad
Max2(a, b) == IF a > b THEN a ELSE b

\* number of effective rounds = ceil(log2 L)
RECURSIVE CeilLog2(_)
CeilLog2(n) == IF n <= 1 THEN 0 ELSE 1 + CeilLog2((n + 1) \div 2)

\* closed form of the array when the next stride is st (shared with ScanTrace)
Closed(i, st) == <<Max2(1, i - st + 1), i>>

Init ==
  /\ L \in 1..MaxL
  /\ v = [i \in 1..L |-> <<i, i>>]
  /\ s = 1 /\ rounds = 0

Round ==
  /\ s < L
  /\ v' = [i \in 1..L |-> IF i > s THEN Cat(v[i - s], v[i]) ELSE v[i]]
  /\ s' = 2 * s
  /\ rounds' = rounds + 1
  /\ UNCHANGED L

\* the code's harmless extra round(s) with an empty index set
EmptyRound == s >= L /\ UNCHANGED vars

Next == Round \/ EmptyRound
Spec == Init /\ [][Next]_vars /\ WF_vars(Round)

Done == s >= L

\* ---------------------------------------------------------------- properties
ClosedForm   == \A i \in 1..L : v[i] = Closed(i, s)
NeverBad     == \A i \in 1..L : v[i] # Bad
FoldAtEnd    == Done => \A i \in 1..L : v[i] = <<1, i>>
RoundCount   == Done => rounds = CeilLog2(L)
StridePow2   == \E k \in 0..13 : s = 2 ^ k
Terminates   == <>Done
================================================================================
