----------------------------- MODULE BroadcastGen -----------------------------
(* spec -> code: tabulates Bcast and the index map of Broadcast for every pair of      *)
(* enumerated lshapes and writes the table as JSON.  The driver compares every row with *)
(* PyTorch itself (torch.broadcast_shapes; arange(numel).reshape(s).expand(o)), so the  *)
(* specification's rule is grounded in "PyTorch broadcasting", not in pypose.           *)
EXTENDS Naturals, Sequences, FiniteSets, TLC, Json, IOUtils

CONSTANTS GRank, GExt

Br == INSTANCE Broadcast WITH MaxRank <- GRank, Extents <- GExt, Triples <- FALSE,
                              a <- <<>>, b <- <<>>, c <- <<>>

\* flat (row-major) operand item index for every output item, in row-major output order
MapOf(s, o) == [k \in 1..Br!Numel(o) |-> Br!Flat(s, Br!IdxMap(s, o, Br!Unflat(o, k - 1)))]

Row(s1, s2) ==
  LET o == Br!Bcast(s1, s2) IN
  IF o = Br!Err THEN [s1 |-> s1, s2 |-> s2, ok |-> FALSE, o |-> <<>>, m1 |-> <<>>, m2 |-> <<>>]
  ELSE [s1 |-> s1, s2 |-> s2, ok |-> TRUE, o |-> o,
        m1 |-> IF Br!Numel(o) = 0 THEN <<>> ELSE MapOf(s1, o),
        m2 |-> IF Br!Numel(o) = 0 THEN <<>> ELSE MapOf(s2, o)]

Rows == { Row(s1, s2) : s1 \in Br!Shapes, s2 \in Br!Shapes }

ASSUME JsonSerialize(IOEnv.OUT_FILE, [rows |-> Rows])
ASSUME PrintT(<<"ROWS", Cardinality(Rows)>>)

VARIABLE x
Init == x = 0
Next == UNCHANGED x
Spec == Init /\ [][Next]_x
================================================================================
