SPECIFICATION Spec
CONSTANT MaxL = 4096
INVARIANT ClosedForm
INVARIANT NeverBad
INVARIANT FoldAtEnd
INVARIANT RoundCount
INVARIANT StridePow2
CHECK_DEADLOCK FALSE
