SPECIFICATION Spec
CONSTANTS
  Mode = "shape"
  MaxP = 3
  MaxB = 2
  Ty = "Sim3"
  NumBig = FALSE
  Mut = "none"
INVARIANT ColumnPartition
INVARIANT SplitIsPartition
INVARIANT LayoutProjection
INVARIANT RowPartition
INVARIANT WeightExpansion
INVARIANT TilingOnDocumentedShapes
INVARIANT LMDiagonalClosedForm
INVARIANT LMSymmetric
INVARIANT LMIsNewtonOnQuadraticModel
INVARIANT LMClampBounds
INVARIANT GNConsistentSystemIsSolved
INVARIANT GNNormalFormMinimises
INVARIANT LMUndampedIsGN
INVARIANT RetractionIsLeftTranslation
INVARIANT FirstOrderIsNotAddition
CHECK_DEADLOCK FALSE
