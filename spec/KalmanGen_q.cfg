\* spec -> code table, quick tier: a thinned sample of the design lattice (all dims, n+k in {1,2,3,5},
\* non-diagonal factors), the mean and nonlinear families, and re-seeded runs of 5 steps
SPECIFICATION Spec
CONSTANTS
  GDims = {11, 21, 12, 22}
  GNKs = {1, 2, 3, 5}
  GNA = 1
  GDL = {1, 2}
  GNL = 1
  GDL2 = {2, 3}
  GNL2 = 1
  GNC = 1
  GNRs = {1, 3}
  GCoarse = 15
  GThin2 = 5
  GStride = 20
  GStrideM = 4
  GStrideN = 25
  GRunLen = 5
  GRunStride = 80
