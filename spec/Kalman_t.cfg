\* thorough design config: all four dimension pairs, n+k in 1..6, every A with entries in -1..1, factors of P with
\* diagonal 1..2, factors of P- with diagonal 2..3 and off-diagonal -1..1, two R, runs of 4; every third factor pair (Lp, L2p) per (A, n+k), every A
SPECIFICATION Spec
CONSTANTS
  Variant = "doc"
  Dims = {11, 12, 21, 22}
  NKs = {1, 2, 3, 4, 5, 6}
  NA = 1
  DL = {1, 2}
  NL = 1
  DL2 = {2, 3}
  NL2 = 1
  NC = 1
  NRs = {1, 3}
  MeanFam = TRUE
  NonLin = TRUE
  MaxSteps = 4
  NKm = {1, 3}
  ThinM = 1
  Thin2 = 3
  Thin = 1
INVARIANT DataValid
INVARIANT PredictedIsData
INVARIANT EKFEqualsKF
INVARIANT UKFEqualsKF
INVARIANT UKFFactorsAreRoots
INVARIANT UKFPredictionIsKF
INVARIANT EKFIsLinearisedKF
INVARIANT PosteriorSymPSD
INVARIANT PosteriorLePrior
INVARIANT Normalised
CHECK_DEADLOCK FALSE
