----------------------------- MODULE LMStepTrace -----------------------------
(* Validates executions recorded from the real pypose LevenbergMarquardt / GaussNewton    *)
(* optimizers against the transition functions of LMStep.                                  *)
(*                                                                                         *)
(* What the harness can see without touching pypose: the public extension points (a user   *)
(* `solver` nn.Module, a user `strategy` object wrapping the real strategy), the model      *)
(* parameters, optimizer.param_groups, and after a call its return value and                *)
(* optimizer.loss / .last / .reject_count.  Events (one per observation, in order):         *)
(*   call      before step():   p (parameters), lk = the loss the call started from          *)
(*   solve     inside solver:   ok | raise, D (step returned), p, d (damping exponent)       *)
(*   strategy  after the real strategy.update: p, last / loss as passed, d, r, w after       *)
(*   return    after step():    ret, lk = optimizer.loss, lastk = optimizer.last, rej, p     *)
(*   raised    GN only: the solver's exception left step()                                   *)
(* The unobservable actions (Damp, Update, Eval, Reject, AcceptOrExhaust) are composed       *)
(* between two observations.                                                                 *)
(*                                                                                         *)
(* Two kinds of runs.  kind = "exact": integer polynomial residual models and integer       *)
(* steps from a scripted solver - every loss is an exact integer, and THIS module computes    *)
(* the true loss of every logged parameter vector, the predicted decrease and hence the      *)
(* quality class from its own copy of the model (Res, JacD), and the expected damping.       *)
(* kind = "float": real solvers on Rosenbrock-like / saturating / Lie-group models; losses   *)
(* are logged as order-preserving ranks of the floats the code held, distances to the         *)
(* harness' own recomputation as integer ulp counts (lerr, rerr; tolerance cfg.tolU) and      *)
(* parameter distances in units of the retraction's round-off (eb, et, ed; tolerance          *)
(* cfg.tolR); the threshold comparisons of the quality ratio are logged as data (qhi, qlo,    *)
(* qj = judged, i.e. not within round-off of a threshold).                                    *)
(* Verdicts are total: every event is consumed, the first failing clause is named, and the   *)
(* state is resynchronised to the logged one.                                                 *)
EXTENDS Naturals, Integers, Sequences, FiniteSets, TLC, Json, IOUtils

Traces == JsonDeserialize(IOEnv.TRACE_FILE)

L == INSTANCE LMStep WITH
       Algos <- {}, Strategies <- {}, RejectSet <- {}, HyperSet <- {}, MaxCalls <- 0, Variant <- "code",
       c <- 0, s <- 0, g <- 0, lastAct <- 0

VARIABLES tid, l, st, verdict
\* st = [s : LMStep implementation record with theta \in {"B", "T"} (base of the call / pending trial),
\*       base, trial : parameter vectors (exact runs), D : last solver step (exact runs),
\*       given : loss at the parameters the call was given, raised : call ended by a raising solver]

\* ------------------------------------------------------------------ reference semantics of the models
\* (integer polynomial residuals; J * D is the directional derivative along D)
Res(m, p) ==
  CASE m.name = "rosen"  -> << m.a - p[1], m.b * (p[2] - p[1] * p[1]) >>
    [] m.name = "himmel" -> << p[1] * p[1] + p[2] - m.a, p[1] + p[2] * p[2] - m.b >>
JacD(m, p, D) ==
  CASE m.name = "rosen"  -> << 0 - D[1], m.b * (D[2] - 2 * p[1] * D[1]) >>
    [] m.name = "himmel" -> << 2 * p[1] * D[1] + D[2], D[1] + 2 * p[2] * D[2] >>
SumSq(v)       == v[1] * v[1] + v[2] * v[2]
TrueLoss(m, p) == SumSq(Res(m, p))
\* ||f||^2 - ||f + J D||^2 = -(J D)^T (2 f + J D)
Predicted(m, p, D) ==
  LET jd == JacD(m, p, D)  r == Res(m, p) IN
  0 - (jd[1] * (2 * r[1] + jd[1]) + jd[2] * (2 * r[2] + jd[2]))
VAdd(u, v) == << u[1] + v[1], u[2] + v[2] >>
VSub(u, v) == << u[1] - v[1], u[2] - v[2] >>

Exact(cfg) == cfg.kind = "exact"

\* admissible quality classes of the trial reported by a strategy event
QSet(cfg, s0, e) ==
  IF Exact(cfg)
  THEN LET num == e.lastk - e.lossk
           den == Predicted(cfg.model, s0.base, VSub(e.p, s0.base)) IN
       IF den = 0 /\ num # 0 THEN L!Qualities          \* x / 0: not judged
       ELSE {L!QualityClass(num, den, cfg.hi, cfg.lo)}
  ELSE IF ~e.qj THEN L!Qualities                        \* within round-off of a threshold: not judged
  ELSE {IF e.qhi THEN "Very" ELSE IF e.qlo THEN "Successful" ELSE "Unsuccessful"}

StratEq(cfg, e, x) ==
  CASE cfg.strat = "TrustRegion" -> e.d = x.d /\ e.r = x.r /\ e.w = x.w
    [] OTHER -> e.d = x.d
Logged(cfg, e) == [d |-> e.d, r |-> e.r, w |-> e.w]

\* the action the code must have taken between a strategy event and the next observation.
\* A trial whose loss EQUALS the previous loss is a tie: the documentation ("loss not
\* decreasing") rejects it, the code (`last < loss`) accepts it; either is admitted.
Pend(cfg, x, nextIsSolve) ==
  IF x.phase # "judged" THEN x
  ELSE IF L!RejectTest(cfg, x) THEN L!RejectF(x, "B")
  ELSE IF nextIsSolve /\ x.last = x.loss /\ x.rej < cfg.reject THEN L!RejectF(x, "B")
  ELSE L!AcceptF(x)

AtBase(cfg, s0, e)  == IF Exact(cfg) THEN e.p = s0.base ELSE e.eb <= cfg.tolR
AtTrial(cfg, s0, e) == IF Exact(cfg) THEN e.p = s0.trial ELSE e.et <= cfg.tolR
AtTheta(cfg, s0, x, e) == IF x.theta = "B" THEN AtBase(cfg, s0, e) ELSE AtTrial(cfg, s0, e)
LossTrue(cfg, e, v, err) == IF Exact(cfg) THEN v = TrueLoss(cfg.model, e.p) ELSE err <= cfg.tolU

\* ------------------------------------------------------------------ expected implementation state
Expected(cfg, s0, e) ==
  LET x == s0.s IN
  CASE e.act = "call" ->
         IF cfg.algo = "LM" THEN L!BeginF(x, e.lk)
         ELSE L!GNBeginF(x)
    [] e.act = "solve" ->
         IF cfg.algo = "LM"
         THEN LET y == L!DampF(Pend(cfg, x, TRUE)) IN
              IF e.ok THEN L!SolveOkF(y) ELSE L!SolveRaiseF(y)
         ELSE IF e.ok THEN L!GNSolveOkF(x) ELSE [x EXCEPT !.phase = "idle"]
    [] e.act = "strategy" ->
         LET y == L!EvalF(L!UpdateF(x, "T"), e.lossk)
             Q == {q \in QSet(cfg, s0, e) : StratEq(cfg, e, L!StrategyF(cfg, y, q))} IN
         IF Q # {} THEN L!StrategyF(cfg, y, CHOOSE q \in Q : TRUE)
         ELSE L!StrategyF(cfg, y, CHOOSE q \in QSet(cfg, s0, e) : TRUE)
    [] e.act = "return" ->
         IF cfg.algo = "LM"
         THEN [L!ReturnF(Pend(cfg, x, FALSE)) EXCEPT !.theta = "B"]
         ELSE [L!ReturnF(L!GNEvalF(L!GNUpdateF(L!GNRecordF(x, s0.given), "T"), e.ret)) EXCEPT !.theta = "B"]
    [] e.act = "raised" -> [x EXCEPT !.phase = "idle"]

Clause(cfg, s0, e) ==
  LET x  == s0.s
      xe == Expected(cfg, s0, e) IN
  CASE e.act = "call" ->
         ( CASE x.phase # "idle"                          -> "call_inside_call"
             [] ~LossTrue(cfg, e, e.lk, e.lerr)           ->
                  (IF cfg.algo = "GN" THEN "gn_records_previous_loss" ELSE "begin_loss_is_true_loss")
             [] cfg.algo = "LM" /\ e.lk # xe.last         -> "begin_loss_is_previous_return"
             [] cfg.algo = "GN" /\ x.cached /\ e.lk # x.loss -> "begin_loss_is_previous_return"
             [] OTHER -> "ok" )
    [] e.act = "solve" /\ cfg.algo = "LM" ->
         LET y == Pend(cfg, x, TRUE) IN
         ( CASE x.phase \notin {"loop", "judged"}          -> "solve_out_of_order"
             [] y.phase # "loop" /\ x.rej >= cfg.reject   -> "trials_bounded"
             [] y.phase # "loop"                          -> "trial_after_accepted_step"
             [] ~L!LoopTest(y)                            -> "trial_after_accepted_step"
             [] xe.trials > cfg.reject + 1                -> "trials_bounded"
             [] ~AtBase(cfg, s0, e)                       -> "rejected_trial_restores"
             [] e.d # y.d                                 -> "damping_changed_outside_strategy"
             [] OTHER -> "ok" )
    [] e.act = "solve" /\ cfg.algo = "GN" ->
         ( CASE x.phase # "gn_lin"                        -> "solve_out_of_order"
             [] ~AtBase(cfg, s0, e)                       -> "parameters_moved_before_solve"
             [] OTHER -> "ok" )
    [] e.act = "strategy" ->
         LET y == L!EvalF(L!UpdateF(x, "T"), e.lossk) IN
         \* when the strategy is consulted the parameters hold the trial point base (+) D - or, for a trial that is being
         \* rejected (its loss is not below the given one), already the base point again: WHEN a rejected trial is undone
         \* relative to the strategy call is not part of the property (found by a behaviour-preserving refactoring)
         ( CASE x.phase # "solved"                        -> "strategy_out_of_order"
             [] ~( (IF Exact(cfg) THEN e.p = VAdd(s0.base, s0.D) ELSE e.ed <= cfg.tolR)
                   \/ (~(e.lossk < e.lastk) /\ AtBase(cfg, s0, e)) ) -> "update_applies_step"
             [] ~(IF Exact(cfg) THEN e.lossk = TrueLoss(cfg.model, VAdd(s0.base, s0.D)) ELSE e.lerr <= cfg.tolU)
                                                          -> "trial_loss_is_true_loss"
             [] e.lastk # x.last                          -> "strategy_last_is_given_loss"
             [] ~L!StratWithinBounds(cfg, Logged(cfg, e)) -> "damping_within_bounds"
             [] ~(\E q \in QSet(cfg, s0, e) : StratEq(cfg, e, L!StrategyF(cfg, y, q)))
                                                          -> "damping_moves"
             [] OTHER -> "ok" )
    [] e.act = "return" /\ cfg.algo = "LM" ->
         LET y == Pend(cfg, x, FALSE) IN
         ( CASE ~LossTrue(cfg, e, e.ret, e.rerr)          -> "returned_loss_is_true_loss"
             [] e.lk # e.ret                              -> "optimizer_loss_is_returned_loss"
             [] e.ret > s0.given /\ x.rej < cfg.reject    -> "worse_without_exhaustion"
             [] s0.raised /\ ~(AtBase(cfg, s0, e) /\ e.ret = x.loss) -> "solver_raise_restores"
             [] y.phase = "loop" /\ y.trials = 0          -> "no_trial_made"
             [] y.phase # "exit"                          -> "loop_ended_early"
             [] ~AtTheta(cfg, s0, y, e)                   -> "final_parameters"
             [] e.ret # y.loss                            -> "returned_loss"
             [] e.rej # y.rej                             -> "reject_count"
             [] e.lastk # s0.given                        -> "last_is_given_loss"
             [] ~StratEq(cfg, e, y)                       -> "damping_changed_outside_strategy"
             [] OTHER -> "ok" )
    [] e.act = "return" /\ cfg.algo = "GN" ->
         ( CASE x.phase # "gn_solved"                     -> "return_out_of_order"
             [] Exact(cfg) /\ e.p # VAdd(s0.base, s0.D)   -> "gn_update_applies_step"
             [] ~Exact(cfg) /\ e.ed > cfg.tolR            -> "gn_update_applies_step"
             [] ~LossTrue(cfg, e, e.ret, e.rerr)          -> "gn_returns_loss_at_new_parameters"
             [] e.lk # e.ret                              -> "optimizer_loss_is_returned_loss"
             [] e.lastk # s0.given                        -> "gn_records_previous_loss"
             [] OTHER -> "ok" )
    [] e.act = "raised" -> "ok"                             \* GN + raising solver: not stated, not judged
    [] OTHER -> "unknown_event"

\* ------------------------------------------------------------------ resynchronisation
Resync(cfg, s0, e) ==
  LET xe == Expected(cfg, s0, e) IN
  CASE e.act = "call" ->
         [s0 EXCEPT !.s = [xe EXCEPT !.last = IF cfg.algo = "LM" THEN e.lk ELSE @,
                                     !.loss = IF cfg.algo = "LM" THEN e.lk ELSE @, !.theta = "B"],
                    !.base = IF Exact(cfg) THEN e.p ELSE @, !.given = e.lk, !.raised = FALSE]
    [] e.act = "solve" ->
         [s0 EXCEPT !.s = [xe EXCEPT !.theta = "B", !.d = e.d],
                    !.D = IF Exact(cfg) /\ e.ok THEN e.D ELSE @, !.raised = ~e.ok]
    [] e.act = "strategy" ->
         [s0 EXCEPT !.s = [xe EXCEPT !.d = e.d, !.r = e.r, !.w = e.w, !.last = e.lastk, !.loss = e.lossk],
                    !.trial = IF Exact(cfg) THEN e.p ELSE @]
    [] e.act = "return" ->
         [s0 EXCEPT !.s = [xe EXCEPT !.ret = e.ret, !.loss = e.lk, !.last = e.lastk, !.cached = TRUE,
                                     !.rej = IF cfg.algo = "LM" THEN e.rej ELSE @,
                                     !.d = IF cfg.algo = "LM" THEN e.d ELSE @,
                                     !.r = IF cfg.algo = "LM" THEN e.r ELSE @,
                                     !.w = IF cfg.algo = "LM" THEN e.w ELSE @],
                    !.base = IF Exact(cfg) THEN e.p ELSE @, !.raised = FALSE]
    [] OTHER -> [s0 EXCEPT !.s = xe]

InitSt(cfg) ==
  [s |-> [L!InitS([h |-> cfg.h]) EXCEPT !.theta = "B"],
   base |-> <<0, 0>>, trial |-> <<0, 0>>, D |-> <<0, 0>>, given |-> 0, raised |-> FALSE]

Init ==
  /\ tid \in 1..Len(Traces)
  /\ l = 1
  /\ st = InitSt(Traces[tid].cfg)
  /\ verdict = "ok"

Next ==
  LET T == Traces[tid] IN
  /\ l <= Len(T.ev)
  /\ LET e  == T.ev[l]
         cl == Clause(T.cfg, st, e) IN
       /\ verdict' = IF verdict = "ok" /\ cl # "ok" THEN cl \o "@" \o ToString(l) ELSE verdict
       /\ st' = Resync(T.cfg, st, e)
       /\ (l = Len(T.ev)) => PrintT(<<"VERDICT", tid, verdict'>>)
  /\ l' = l + 1 /\ UNCHANGED tid

Spec == Init /\ [][Next]_<<tid, l, st, verdict>>
================================================================================
