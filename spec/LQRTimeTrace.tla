----------------------------- MODULE LQRTimeTrace -----------------------------
(* Validates event logs of real LQR / MPC solves against LQRTime.  The events come from a   *)
(* logging LTV / NLS / LTI subclass and from module hooks on the LQR object:                 *)
(*   begin / end   forward pre-hook / hook of the LQR module (one solve)                     *)
(*   call          a system call (system.__call__), ts = the time index the dynamics saw     *)
(*                 (LTV: the counter when A was read inside the call; NLS: the t handed to    *)
(*                 state_transition)                                                         *)
(*   ref           system.set_refpoint(..., t = targ)                                        *)
(*   lin           a read of A / B (LTV) or an evaluation of state_transition by the          *)
(*                 linearisation (NLS) outside a system call, ts = the time index it saw       *)
(*   user          reset(v) / systime = v between solves;  mpc_begin / mpc_end                 *)
(* every event carries t = systime after it.  TLC assigns pass and stage to each event by     *)
(* running LQRTime!StepEv and judges ts = stage (the property StageUsesOwnIndex).             *)
(* cfg.dev = TRUE validates against the named deviation StaleStart instead (used by the        *)
(* driver to classify a rejected trace as "exactly the known stale-start behaviour").          *)
EXTENDS Naturals, Integers, Sequences, FiniteSets, TLC, Json, IOUtils

Traces == JsonDeserialize(IOEnv.TRACE_FILE)

L == INSTANCE LQRTime WITH
       Classes <- {}, Horizons <- {}, MaxSolves <- 0, MaxUser <- 0, TimeVals <- {}, Deviation <- FALSE,
       cls <- "", T <- 0, t <- 0, pc <- "idle", k <- 0, rt <- 0, solves <- 0, users <- 0, mpc <- 0, ev <- <<>>

VARIABLES tid, l, st, verdict
\* st = [s |-> LQRTime state, solve |-> solves begun, t0 |-> counter when the current solve began, inmpc |-> BOOLEAN]

\* the history shape a failing stage is keyed by: a later solve on the same object, or the first solve on an
\* object whose counter the user had moved, or the very first solve of a fresh object
SolveTag(x) == IF x.solve > 1 THEN "solve>1" ELSE IF x.t0 > 0 THEN "solve1,t0>0" ELSE "solve1"

Clause(cfg, x, e) ==
  LET r == L!StepEv(cfg.cls, cfg.T, cfg.dev, x.s, [kind |-> e.k, targ |-> e.targ, v |-> e.v]) IN
  CASE e.k = "user" /\ x.inmpc -> "user_call_inside_mpc"
    [] e.k = "call" /\ r.pass = "user" /\ x.inmpc -> "user_call_inside_mpc"
    [] r.err # "ok" -> r.err
    [] cfg.dev /\ r.ts >= 0 /\ cfg.cls # "LTI" /\ e.ts # r.ts -> "not_the_stale_start_model"
    [] ~cfg.dev /\ cfg.cls # "LTI" /\ r.pass \in {"rollout", "backward", "forward"} /\ r.ts >= 0 /\ e.ts # r.stage
         -> r.pass \o "/" \o SolveTag(x)
    [] ~cfg.dev /\ e.k = "ref" /\ r.pass = "backward" /\ e.targ # r.stage -> "refpoint/" \o SolveTag(x)
    [] e.k = "mpc_end" /\ (e.v < 1 \/ ~x.inmpc) -> "mpc_solve_count"
    [] OTHER -> "ok"

NextSt(cfg, x, e) ==
  LET r == L!StepEv(cfg.cls, cfg.T, cfg.dev, x.s, [kind |-> e.k, targ |-> e.targ, v |-> e.v]) IN
  [s |-> [r.s EXCEPT !.t = e.t],
   solve |-> IF e.k = "begin" THEN x.solve + 1 ELSE x.solve,
   t0 |-> IF e.k = "begin" THEN x.s.t ELSE x.t0,
   inmpc |-> IF e.k = "mpc_begin" THEN TRUE ELSE IF e.k = "mpc_end" THEN FALSE ELSE x.inmpc]

Init == tid \in 1..Len(Traces) /\ l = 1 /\ st = [s |-> L!InitS, solve |-> 0, t0 |-> 0, inmpc |-> FALSE] /\ verdict = "ok"

Next ==
  LET Tr == Traces[tid] IN
  /\ l <= Len(Tr.ev)
  /\ LET e  == Tr.ev[l]
         cl == Clause(Tr.cfg, st, e) IN
       /\ verdict' = IF verdict = "ok" /\ cl # "ok" THEN cl \o "@" \o ToString(l) ELSE verdict
       /\ st' = NextSt(Tr.cfg, st, e)
       /\ (l = Len(Tr.ev)) => PrintT(<<"VERDICT", tid, verdict'>>)
  /\ l' = l + 1 /\ UNCHANGED tid

Spec == Init /\ [][Next]_<<tid, l, st, verdict>>
================================================================================
