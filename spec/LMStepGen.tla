------------------------------ MODULE LMStepGen ------------------------------
(* spec -> code: tabulates, for every strategy, reject budget, strategy state at entry and   *)
(* every CALL SCRIPT (the environment's choices for the trials of one LM step() call:         *)
(* solver ok | raise, loss Better | Equal | Worse, quality class), the abstract state LMStep   *)
(* prescribes after every observable action of that call.  The harness drives the real         *)
(* optimizer through each script with a scripted solver (integer steps realising each           *)
(* choice), over several consecutive calls, and compares after every action.                    *)
EXTENDS Naturals, Integers, Sequences, FiniteSets, TLC, Json, IOUtils

L == INSTANCE LMStep WITH
       Algos <- {}, Strategies <- {}, RejectSet <- {}, HyperSet <- {}, MaxCalls <- 0, Variant <- "code",
       c <- 0, s <- 0, g <- 0, lastAct <- 0

CONSTANTS GStrats, GRejects, GHyper   \* GHyper: "quick" | "thorough" (L!HyperQuick / L!HyperThorough)

Hypers == IF GHyper = "quick" THEN L!HyperQuick ELSE L!HyperThorough
G == 10     \* loss level at the parameters the call is given

\* ---- call scripts: k rejected (Worse) trials, then a final trial
NonFinal == [ok : {TRUE}, o : {"Worse"}, q : L!Qualities]
FinalOk  == [ok : {TRUE}, o : {"Better"}, q : L!Qualities]
              \cup {[ok |-> TRUE, o |-> "Equal", q |-> "Unsuccessful"]}
Raise    == [ok |-> FALSE, o |-> "Equal", q |-> "Unsuccessful"]
RECURSIVE Prefixes(_)
Prefixes(k) == IF k = 0 THEN {<<>>} ELSE {Append(p, t) : p \in Prefixes(k - 1), t \in NonFinal}
Scripts(R) ==
  UNION { {Append(p, t) : p \in Prefixes(k), t \in FinalOk \cup {Raise}} : k \in 0..R }
  \cup {Append(p, t) : p \in Prefixes(R), t \in NonFinal}           \* exhaustion: the (R+1)-th trial is worse too

\* ---- strategy states at entry of a call
Max(a, b) == IF a > b THEN a ELSE b
Starts(cf) ==
  LET h == cf.h IN
  CASE cf.strat = "Constant" -> {[d |-> h.d0, w |-> h.w0]}
    [] cf.strat = "Adaptive" -> {[d |-> d, w |-> h.w0] : d \in (h.minE..h.maxE) \cup {h.d0}}
    [] cf.strat = "TrustRegion" ->
         {[d |-> d, w |-> w] : d \in ((0 - h.maxE)..(0 - h.minE)) \cup {h.d0}, w \in h.w0..Max(h.w0, 0 - h.minE)}

Obs(a, x) == [act |-> a, rej |-> x.rej, trials |-> x.trials, d |-> x.d, r |-> x.r, w |-> x.w,
              at |-> x.theta, loss |-> x.loss - G, last |-> x.last - G, ret |-> x.ret - G]

Fin(x) == << Obs("return", L!ReturnF(x)) >>
RECURSIVE Run(_, _, _, _)
Run(cf, x, script, i) ==
  LET t == script[i]
      y == L!DampF(x) IN
  IF ~t.ok THEN << Obs("solve", L!SolveRaiseF(y)) >> \o Fin(L!SolveRaiseF(y))
  ELSE LET z1 == L!SolveOkF(y)
           z2 == L!EvalF(L!UpdateF(z1, "T"), G + L!Delta(t.o))
           z3 == L!StrategyF(cf, z2, t.q)
           z4 == IF L!RejectTest(cf, z3) THEN L!RejectF(z3, "B") ELSE L!AcceptF(z3) IN
       << Obs("solve", z1), Obs("strategy", z3) >> \o
         (IF z4.phase = "loop" THEN Run(cf, z4, script, i + 1) ELSE Fin(z4))

Start(cf, ss) == L!BeginF([L!InitS(cf) EXCEPT !.theta = "B", !.d = ss.d, !.r = 0 - ss.d, !.w = ss.w], G)

Key(script) == [i \in 1..Len(script) |->
                  IF ~script[i].ok THEN "raise" ELSE script[i].o \o "/" \o script[i].q]

Row(cf, ss, sc) == [strat |-> cf.strat, reject |-> cf.reject, h |-> cf.h, start |-> ss, script |-> Key(sc),
                    obs |-> Run(cf, Start(cf, ss), sc, 1)]
Cfgs == [algo : {"LM"}, strat : GStrats, reject : GRejects, h : Hypers]
ScriptsOf == [R \in GRejects |-> Scripts(R)]      \* constant definition: evaluated once
Rows == UNION { UNION { {Row(cf, ss, sc) : sc \in ScriptsOf[cf.reject]} : ss \in Starts(cf) } : cf \in Cfgs }

ASSUME JsonSerialize(IOEnv.OUT_FILE, [rows |-> Rows])
ASSUME PrintT(<<"ROWS", Cardinality(Rows)>>)

VARIABLE x
Init == x = 0
Next == UNCHANGED x
Spec == Init /\ [][Next]_x
================================================================================
