----------------------------- MODULE LQRExactGen -----------------------------
(* spec -> code: for every LQ instance listed in IOEnv.IN_FILE (integer data chosen by the   *)
(* driver: the enumerated families of LQRExact plus random integer instances) TLC computes     *)
(* the exact optimum with LQRExact!Solve -- states, inputs and cost as fractions [num, den] -- *)
(* checks the instance is well formed (PD cost) and that ZeroGradient / NoBetterNeighbour hold  *)
(* for it, and writes the table to IOEnv.OUT_FILE.  The driver runs the real LQR / MPC on the   *)
(* same instances and measures the distance of every returned float to these fractions.        *)
EXTENDS Naturals, Integers, Sequences, TLC, Json, IOUtils, FiniteSets

L == INSTANCE LQRExact WITH Family <- "scalar", inst <- <<>>, phase <- 0

Instances == JsonDeserialize(IOEnv.IN_FILE)

RowOf(I) ==
  IF ~L!WellFormed(I) THEN [ok |-> FALSE, x |-> <<>>, u |-> <<>>, cost |-> <<0, 1>>, zerograd |-> FALSE, nobetter |-> FALSE]
  ELSE LET S == L!Solve(I) IN
       [ok |-> TRUE, x |-> S.x, u |-> S.u, cost |-> S.cost,
        zerograd |-> L!ZeroGradientAt(I, S.u), nobetter |-> L!NoBetterNeighbourAt(I, S.u, S.cost)]

\* S is used three times above; bind it to a value once (operator arguments and LETs are re-evaluated by TLC)
Rows == [i \in 1..Len(Instances) |-> CHOOSE r \in {RowOf(I) : I \in {Instances[i]}} : TRUE]

ASSUME JsonSerialize(IOEnv.OUT_FILE, Rows)
ASSUME PrintT(<<"ROWS", Len(Instances)>>)

VARIABLE x
Init == x = 0
Next == UNCHANGED x
Spec == Init /\ [][Next]_x
================================================================================
