SPECIFICATION Spec
CONSTANTS
  TDepth = 2
  TPoints = 3
INVARIANT ModelRestored
CHECK_DEADLOCK FALSE
