\* seeded design mutant (sigma deviations taken from the ROWS of the factor (ukf.py before the repair)): TLC must report a violated invariant (run by `bin/check C13 --selftest`)
SPECIFICATION Spec
CONSTANTS
  Variant = "rows"
  Dims = {11, 21, 22}
  NKs = {3}
  NA = 0
  DL = {1}
  NL = 1
  DL2 = {3}
  NL2 = 1
  NC = 1
  NRs = {2}
  MeanFam = TRUE
  NonLin = FALSE
  MaxSteps = 1
  NKm = {3}
  ThinM = 1
  Thin2 = 1
  Thin = 1
INVARIANT DataValid
INVARIANT PredictedIsData
INVARIANT EKFEqualsKF
INVARIANT UKFEqualsKF
INVARIANT UKFFactorsAreRoots
INVARIANT UKFPredictionIsKF
INVARIANT EKFIsLinearisedKF
INVARIANT PosteriorSymPSD
INVARIANT PosteriorLePrior
INVARIANT Normalised
CHECK_DEADLOCK FALSE
