------------------------------ MODULE LieGroupMC ------------------------------
(* One group element under a history of  @ (left / right),  Inv  and  Retr (add_)      *)
(* updates, with a ghost 4x4 matrix maintained by plain matrix multiplication.          *)
(* Serves C03 (group laws, matrix homomorphism, action, validity over histories) and    *)
(* C05 (Adj / AdjT / Retr identities in Exp-free form).                                 *)
EXTENDS LieExact

CONSTANTS Ty,        \* group type explored
          TBox,      \* translations kept within [-TBox, TBox]^3 (state constraint)
          SBox,      \* scales kept within 2^-SBox .. 2^SBox
          TDen,      \* translations have denominators at most 2^TDen
          Deep       \* TRUE: full bases and all generator pairs in the laws

VARIABLES X,   \* the element (record t, q, s)
          M,   \* ghost: its 4x4 matrix, updated by matrix products only
          last \* last action (for behaviour replay; hidden by VIEW)

vars == <<X, M, last>>

HasT == Ty \in {"SE3", "Sim3"}
HasS == Ty \in {"RxSO3", "Sim3"}

\* generating set: i, j, (1+i+j+k)/2 generate the 24 units; unit translations; scale 2, 1/2
GenQ == { <<DOne, DZero, DZero, DZero>>, <<DZero, DOne, DZero, DZero>>, <<DHalf, DHalf, DHalf, DHalf>> }
GenT == IF HasT THEN { <<DOne, DZero, DZero>>, <<DZero, DOne, DZero>>, <<DZero, DZero, D(-1)>> } ELSE {}
GenS == IF HasS THEN { D(2), DHalf } ELSE {}
Gens == { Elem(VZero(3), q, DOne) : q \in GenQ } \cup
        { Elem(t, QOne, DOne) : t \in GenT } \cup
        { Elem(VZero(3), QOne, s) : s \in GenS } \cup
        (IF HasT /\ HasS THEN { Elem(<<DOne, D(-1), DZero>>, <<DHalf, DNeg(DHalf), DHalf, DHalf>>, D(2)) } ELSE {})

\* the actions are linear in p for a fixed element, so agreement on a basis (plus a generic
\* point, and w = 0 directions for 4-vectors) is agreement everywhere
Pts3 == { <<DOne, DZero, DZero>>, <<DZero, DOne, DZero>>, <<DZero, DZero, DOne>>, <<DOne, D(-1), D(2)>>, VZero(3) }
Pts4 == { <<DOne, DZero, DZero, DZero>>, <<DZero, DOne, DZero, DZero>>, <<DZero, DZero, DOne, DZero>>,
          <<DZero, DZero, DZero, DOne>>, <<DOne, D(-1), D(2), DZero>>, <<D(2), DOne, D(-1), D(-1)>>,
          <<DZero, DZero, DZero, DZero>> }
\* Adj / AdjT are linear in the algebra element: a basis decides the laws (Deep); the quick
\* configuration uses three generic elements instead.
Unit3(i) == [j \in 1..3 |-> IF i = j THEN DOne ELSE DZero]
AlgBasis ==
  { Alg(VZero(3), Unit3(i), DZero) : i \in 1..3 } \cup
  (IF HasT THEN { Alg(Unit3(i), VZero(3), DZero) : i \in 1..3 } ELSE {}) \cup
  (IF HasS THEN { Alg(VZero(3), VZero(3), DOne) } ELSE {})
AlgGeneric ==
  { Alg(IF HasT THEN <<DOne, D(2), D(-1)>> ELSE VZero(3), <<D(-1), DOne, D(2)>>, IF HasS THEN DOne ELSE DZero),
    Alg(IF HasT THEN <<DZero, D(-1), DOne>> ELSE VZero(3), <<DOne, DZero, DZero>>, IF HasS THEN D(-1) ELSE DZero),
    Alg(IF HasT THEN <<D(2), DZero, DZero>> ELSE VZero(3), VZero(3), DZero) }
AlgSamples == IF Deep THEN AlgBasis \cup AlgGeneric
              ELSE { Alg(IF HasT THEN <<DOne, D(2), D(-1)>> ELSE VZero(3), <<D(-1), DOne, D(2)>>, IF HasS THEN DOne ELSE DZero) }
\* partners for the binary laws: two mixed elements (quick) or the whole generating set (Deep)
Mixed == { Elem(IF HasT THEN <<DOne, D(-1), DZero>> ELSE VZero(3), <<DHalf, DNeg(DHalf), DHalf, DHalf>>, IF HasS THEN D(2) ELSE DOne),
           Elem(IF HasT THEN <<DZero, DZero, DOne>> ELSE VZero(3), <<DZero, DOne, DZero, DZero>>, IF HasS THEN DHalf ELSE DOne) }
GensC == IF Deep THEN Gens ELSE Mixed
GensA == IF Deep THEN Gens ELSE Mixed

Init == X = Id /\ M = Ident(4) /\ last = [a |-> "init"]

MulR(g) == X' = Mul(X, g) /\ M' = MatMul(M, Mat4(g)) /\ last' = [a |-> "mulr", g |-> g]
MulL(g) == X' = Mul(g, X) /\ M' = MatMul(Mat4(g), M) /\ last' = [a |-> "mull", g |-> g]
InvA    == X' = Inv(X) /\ M' = Mat4(Inv(X)) /\ last' = [a |-> "inv"]
RetrT(t) == X' = Retr(X, Alg(t, VZero(3), DZero))
            /\ M' = MatMul(Mat4(Elem(t, QOne, DOne)), M) /\ last' = [a |-> "retr", t |-> t]

Next == \/ \E g \in Gens : MulR(g) \/ MulL(g)
        \/ InvA
        \/ \E t \in GenT : RetrT(t)

Spec == Init /\ [][Next]_vars

Abs(d)   == IF d[1] < 0 THEN DNeg(d) ELSE d
InBox ==
  /\ \A i \in 1..3 : ~DLess(D(TBox), Abs(X.t[i])) /\ X.t[i][2] <= TDen   \* bounded size and denominator
  /\ ~DLess(<<Pow2(SBox), 0>>, X.s) /\ ~DLess(X.s, <<1, SBox>>)
View == <<X, M>>

\* ---------------------------------------------------------------- invariants (C03)
ValidElem0     == Valid(Ty, X)
Homomorphism0  == Mat4(X) = M                         \* matrix() is a homomorphism
BlocksAgree0   ==                                      \* blocks = rotation / translation / scale
  /\ \A i \in 1..3 : M[i][4] = X.t[i]
  /\ \A i, j \in 1..3 : M[i][j] = DMul(X.s, Rot(X.q)[i][j])
  /\ M[4] = <<DZero, DZero, DZero, DOne>>
InverseTwoSided0 == SameElem(Mul(X, Inv(X)), Id) /\ SameElem(Mul(Inv(X), X), Id)
IdentityNeutral0 == SameElem(Mul(X, Id), X) /\ SameElem(Mul(Id, X), X)
ActIsMatrix0 ==
  /\ \A p \in Pts3 : LET r == MatVec(M, <<p[1], p[2], p[3], DOne>>) IN
                       Act3(X, p) = <<r[1], r[2], r[3]>> /\ ActQ(X, p) = Act3(X, p)
  /\ \A p \in Pts4 : Act4(X, p) = MatVec(M, p)
ActComposes0 == \A g \in GensC : \A p \in {<<DOne, D(-1), DZero>>, <<DZero, DOne, DOne>>} :
                 Act3(Mul(X, g), p) = Act3(X, Act3(g, p))
Associative0 == \A a \in GensA, b \in GensC : SameElem(Mul(Mul(X, a), b), Mul(X, Mul(a, b)))
                                  /\ SameElem(Mul(Mul(a, X), b), Mul(a, Mul(X, b)))
RotationOrthogonal0 == MatMul(Rot(X.q), Transpose(Rot(X.q))) = Ident(3)

\* ---------------------------------------------------------------- invariants (C05, Exp-free)
AdjIsGenerator0 == \A A \in AlgSamples : IsGenerator(AdjM(X, A))
AdjInverse0     == \A A \in AlgSamples : AdjT(X, Adj(X, A)) = A /\ Adj(X, AdjT(X, A)) = A
AdjTIsAdjOfInv0 == \A A \in AlgSamples : AdjT(X, A) = Adj(Inv(X), A)
AdjComposes0    == \A g \in GensC : \A A \in AlgSamples : Adj(Mul(X, g), A) = Adj(X, Adj(g, A))
\* X @ Exp(a) = Exp(Adj(X, a)) @ X   and   Exp(a) @ X = X @ Exp(AdjT(X, a))   for pure translations
AdjExpIdentity0 ==
  \A t \in GenT : LET A == Alg(t, VZero(3), DZero) IN
    /\ IsPureTrans(Adj(X, A)) /\ SameElem(Mul(X, ExpT(A)), Mul(ExpT(Adj(X, A)), X))
    /\ IsPureTrans(AdjT(X, A)) /\ SameElem(Mul(ExpT(A), X), Mul(X, ExpT(AdjT(X, A))))

\* Out-of-box successors are generated (and discarded by the CONSTRAINT) many times over; the laws are
\* evaluated on the elements inside the box only.
ValidElem == InBox => ValidElem0
Homomorphism == InBox => Homomorphism0
BlocksAgree == InBox => BlocksAgree0
InverseTwoSided == InBox => InverseTwoSided0
IdentityNeutral == InBox => IdentityNeutral0
ActIsMatrix == InBox => ActIsMatrix0
ActComposes == InBox => ActComposes0
Associative == InBox => Associative0
RotationOrthogonal == InBox => RotationOrthogonal0
AdjIsGenerator == InBox => AdjIsGenerator0
AdjInverse == InBox => AdjInverse0
AdjTIsAdjOfInv == InBox => AdjTIsAdjOfInv0
AdjComposes == InBox => AdjComposes0
AdjExpIdentity == InBox => AdjExpIdentity0
================================================================================
