SPECIFICATION Spec
CONSTANTS
  Big = TRUE
CHECK_DEADLOCK FALSE
