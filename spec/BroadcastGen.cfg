SPECIFICATION Spec
CONSTANTS
  GRank = 3
  GExt = {0, 1, 2, 3}
