\* seeded design mutant keep_trial_loss: TLC must report a violated property (run by `bin/check C08 --selftest`)
SPECIFICATION Spec
CONSTANTS
  Algos = {"LM", "GN"}
  Strategies = {"Constant", "Adaptive", "TrustRegion"}
  RejectSet = {0, 1, 2}
  HyperSet <- HyperQuick
  MaxCalls = 3
  Variant = "keep_trial_loss"
INVARIANT TypeOK
INVARIANT ReturnedLossIsTrueLoss
INVARIANT CacheCoherent
INVARIANT NotWorseUnlessExhausted
INVARIANT LastIsGivenLoss
INVARIANT TrialsStartFromGiven
INVARIANT SolverRaiseRestores
INVARIANT TrialsBounded
INVARIANT FirstIterationAlways
INVARIANT RejectCountIsRejections
INVARIANT DampingWithinBounds
INVARIANT GNReturnsNewRecordsPrevious
PROPERTY RejectedTrialRestores
PROPERTY DampingMoves
CHECK_DEADLOCK FALSE
