----------------------------- MODULE AlignTrace -----------------------------
(* Validates what the real pypose.svdtf / pypose.svdstf / ICP / EPnP RETURNED against Align.tla. *)
(*                                                                                              *)
(* Families of traces (cfg.kind):                                                               *)
(*  "lat"   lattice instances (mode E).  One "align" event per call: the integer source cloud,   *)
(*          the true transform (Hurwitz unit, integer translation, scale 2^k), the integer noise, *)
(*          the target cloud that was passed (dyadics), and of the RESULT: its nearest lattice    *)
(*          element, the largest deviation from it (in eps * scale), | |q|^2 - 1 | in eps, and    *)
(*          the exact SSR of the result applied to the source (floor, units of 2^-FpBits of the   *)
(*          integerised clouds).  TLC recomputes the target from LieExact's action, classifies    *)
(*          the cloud, computes the moments and the ranking of the 24 candidates exactly, and     *)
(*          judges:  proper,  optimal (SSR <= best candidate SSR + tol - a necessary condition),  *)
(*          reproduce (exact correspondences, non-collinear, well conditioned: the lattice        *)
(*          element is the true transform as a transformation (quaternion modulo sign), the       *)
(*          rotation matrix of the returned quaternion has R^T R = I, det = +1).                  *)
(*  "rand"  random instances (mode R): integer measures against an independent Kabsch/Umeyama     *)
(*          (excess SSR in eps units), orthogonality / determinant of the returned matrix, pose   *)
(*          error on exact correspondences; the tolerances are Align's.                           *)
(*  "icp"   mean squared closest-point distance before / after (relative fixed point), recovery    *)
(*          error of exact small rigid perturbations.                                             *)
(*  "epnp"  pose error (units of 1e-12) on exact projections.                                      *)
(* An event with exc = TRUE records a call that raised on a valid input (clause "raises").         *)
(* Every trace ends with a "done" event carrying the number of events that were logged.           *)
(* Verdicts are total: the first failing clause is named "clause@index".  Clauses starting with   *)
(* "harness_" mean the log itself is inconsistent (machinery failure, not a violation).           *)
EXTENDS Naturals, Integers, Sequences, FiniteSets, TLC, Json, IOUtils

Traces == JsonDeserialize(IOEnv.TRACE_FILE)

A == INSTANCE Align WITH
       P3 <- {}, P4 <- {}, P5 <- {}, P6 <- {}, MultiSizes <- {}, UnitKinds <- {}, TransCodes <- {},
       ScaleHalves <- {}, NoiseKinds <- {},
       pc <- "trace", src <- <<>>, cls <- "", X <- <<>>, noise <- <<>>, tgt <- <<>>, mom <- <<>>, sol <- <<>>

VARIABLES tid, l, st, verdict
\* st = number of events consumed (the only state a sequence of independent calls has)

IsDy(d)    == d[2] >= 0 /\ d[2] <= 12 /\ (d[1] = 0 => d[2] = 0) /\ (d[2] > 0 => d[1] % 2 # 0)
IntVec(v)  == Len(v) = 3
ZeroVec    == <<0, 0, 0>>

LatticeTransform(c, T) ==
  /\ T.q \in A!Units24
  /\ \A k \in 1..3 : T.t[k][2] = 0 /\ T.t[k][1] >= -8 /\ T.t[k][1] <= 8
  /\ T.s \in {<<1, 2>>, <<1, 1>>, <<1, 0>>, <<2, 0>>, <<4, 0>>}
  /\ (c.fn = "svdtf" => T.s = <<1, 0>>)

AlignClause(c, e) ==
  LET x     == e.src
      n     == Len(x)
      T     == A!Elem(e.X.t, e.X.q, e.X.s)
      y     == e.tgt
      E     == A!MaxExp(y)
      ix    == [i \in 1..n |-> A!IScale(A!Pow2(E), x[i])]
      iy    == A!IntCloud(y, E)
      m     == A!Moments(ix, iy)
      r     == A!Ranking(m)
      exact == \A i \in 1..n : e.noise[i] = ZeroVec
      rigid == c.fn = "svdtf"
      bound == IF rigid THEN A!RigidBoundFp(m, r) ELSE A!SimBoundFp(m, r)
      res   == A!Elem(e.res.t, e.res.q, e.res.s)
  IN
  CASE ~(n \in 3..6 /\ Len(y) = n /\ Len(e.noise) = n)                      -> "harness_shape"
    [] ~LatticeTransform(c, T)                                              -> "harness_transform"
    [] \E i \in 1..n : \E k \in 1..3 : ~IsDy(y[i][k])                        -> "harness_dyadic"
    [] \E i \in 1..n : y[i] # A!VAdd(A!Act3(T, A!DPt(x[i])), A!DPt(e.noise[i])) -> "harness_target"
    [] A!AllSame(x)                                                         -> "harness_cloud"
    [] A!MaxAbs(ix) > 8 \/ A!MaxAbs(iy) > 24                                -> "harness_range"
    [] c.cls # A!Class(x)                                                   -> "harness_class"
    [] c.noisy # ~exact                                                     -> "harness_noisy"
    \* zero cross-correlation: the similarity optimum degenerates to scale 0 - unspecified, must not be logged
    [] ~rigid /\ r.amax <= 0                                                -> "harness_unspecified"
    [] e.exc                                                                -> "raises"
    [] e.qn > A!QnTol                                                       -> "proper"
    [] n * e.ssr > bound + n * A!SsrTolFp                                   -> "optimal"
    [] exact /\ A!WellPosed(x) /\ e.dev > A!SnapTol                         -> "reproduce"
    [] exact /\ A!WellPosed(x) /\ ~A!SameElem(res, T)                       -> "reproduce"
    [] exact /\ A!WellPosed(x) /\ ~A!DProper(A!Rot(res.q))                  -> "proper"
    [] OTHER -> "ok"

RandClause(c, e) ==
  CASE ~(e.n >= 3 /\ e.n <= 200)                                            -> "harness_shape"
    [] e.qn > A!QnTol \/ e.orth > A!OrthTol \/ e.det > A!OrthTol            -> "proper"
    [] e.excess > A!ExcessTol                                               -> "optimal"
    [] ~c.noisy /\ e.cond <= A!CondMax /\ e.perr > A!PoseTol                -> "reproduce"
    [] OTHER -> "ok"

IcpClause(c, e) ==
  CASE e.b > A!MonoOne \/ e.b < 0 \/ e.a < 0                                -> "harness_measure"
    [] e.a > e.b + A!MonoTol                                                -> "monotone"
    [] e.rec >= 0 /\ e.rec > A!IcpRecTol                                    -> "recover"
    [] OTHER -> "ok"

EpnpClause(c, e) ==
  CASE ~(e.n >= 6 /\ e.n <= 100)                                            -> "harness_shape"
    [] e.terr > A!EpnpTol(c.refine) \/ e.rerr > A!EpnpTol(c.refine)         -> "pose"
    [] OTHER -> "ok"

Clause(c, s, e) ==
  CASE e.act = "done"  -> IF e.n = s THEN "ok" ELSE "missing_event"
    [] e.act \in {"rand", "icp", "epnp"} /\ e.exc -> "raises"              \* a valid call raised
    [] e.act = "align" -> IF c.kind = "lat"  THEN AlignClause(c, e) ELSE "harness_act"
    [] e.act = "rand"  -> IF c.kind = "rand" THEN RandClause(c, e)  ELSE "harness_act"
    [] e.act = "icp"   -> IF c.kind = "icp"  THEN IcpClause(c, e)   ELSE "harness_act"
    [] e.act = "epnp"  -> IF c.kind = "epnp" THEN EpnpClause(c, e)  ELSE "harness_act"
    [] OTHER -> "harness_act"

Init == /\ tid \in 1..Len(Traces) /\ l = 1 /\ st = 0 /\ verdict = "ok"

Next ==
  LET T == Traces[tid] IN
  /\ l <= Len(T.ev)
  /\ LET e  == T.ev[l]
         cl == Clause(T.cfg, st, e)
         last == l = Len(T.ev)
         \* a trace that does not end with its "done" event lost events
         cl2 == IF cl = "ok" /\ last /\ e.act # "done" THEN "missing_event" ELSE cl IN
       /\ verdict' = IF verdict = "ok" /\ cl2 # "ok" THEN cl2 \o "@" \o ToString(l) ELSE verdict
       /\ st' = st + 1
       /\ last => PrintT(<<"VERDICT", tid, verdict'>>)
  /\ l' = l + 1 /\ UNCHANGED tid

Spec == Init /\ [][Next]_<<tid, l, st, verdict>>
================================================================================
