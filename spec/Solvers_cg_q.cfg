\* quick: exact CG (tol = 2^-15) on every SPD matrix of order 1..3 with entries -2..2; rhs 0, e_k, (1..1); initial guess none or any vector with entries -1..1; no preconditioner
SPECIFICATION Spec
CONSTANTS
  Mode = "cg"
  Dims = {1,2,3}
  EMax = 2
  BMax = 1
  BUnit = TRUE
  LDims = {}
  LMax = 0
  UseX0 = TRUE
  X0Max = 1
  PrecMax = 0
  PrecFull = FALSE
  TolD = 32768
INVARIANT ResidualIsTrue
INVARIANT IterBound
INVARIANT ZeroResidualAtN
INVARIANT ResidualOrthP
INVARIANT ReturnMeetsTol
INVARIANT ExactWhenZero
INVARIANT ZeroRhs
INVARIANT RunAgrees
CHECK_DEADLOCK FALSE
