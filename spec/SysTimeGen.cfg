\* quick: every state reachable within 2 calls x every call (= all call sequences of length <= 3)
SPECIFICATION Spec
CONSTANTS
  GDepth = 2
  GTimeVals = {0, 3}
