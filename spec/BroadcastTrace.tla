---------------------------- MODULE BroadcastTrace ----------------------------
(* Validates recorded calls of the real LieTensor operations on batched operands, and of *)
(* shape-only torch functions on LieTensors, against Broadcast (lshape rule, index map,  *)
(* result-type table, handled-function table) and LieExact / LieTrace (exact value of    *)
(* the operation on the selected items).                                                 *)
(*                                                                                       *)
(* kind "bin" / "un": cfg = [ty, dt, s1, s2, X, XT, Y, P3, P4, A, T]: the operand        *)
(*   batches as flat row-major lists of lattice items (dyadic vectors).  Events:         *)
(*     call  [op, raised, shape, ltype, dt, dev]                                         *)
(*     item  [I, out]            the output items of that call, in row-major order       *)
(*     end                                                                               *)
(*   The spec -- not the harness -- selects the operand items with Broadcast's index     *)
(*   map and recomputes the operation exactly.                                           *)
(* kind "shape": events  shape [fn, inlib, ty, lastdim, is_lie, oltype, oshape, rshape,  *)
(*   odt, rdt, out, ref]: out / ref are item labels (equal label <=> identical item) of  *)
(*   the LieTensor result and of the same torch function applied to the plain tensor.    *)
(* Verdicts are total (first failing clause @ event index), state resynchronised.        *)
EXTENDS Naturals, Integers, Sequences, FiniteSets, TLC, Json, IOUtils

Traces == JsonDeserialize(IOEnv.TRACE_FILE)

VARIABLES tid, l, st, verdict
\* st = [op |-> operation of the current call ("" = none), n |-> items seen, need |-> items expected]

Br == INSTANCE Broadcast WITH MaxRank <- 3, Extents <- {0, 1, 2, 3}, Triples <- FALSE,
                              a <- <<>>, b <- <<>>, c <- <<>>
LT == INSTANCE LieTrace

\* ------------------------------------------------------------------ operands
First(cfg, op) ==
  CASE op = "exp"             -> cfg.T      \* rotation-free algebra items: Exp is exact
    [] op \in {"log", "jinvp"} -> cfg.XT    \* pure translations: Log and Jl^-1 are exact
    [] OTHER                  -> cfg.X
Second(cfg, op) ==
  CASE op = "mul"  -> cfg.Y
    [] op = "act3" -> cfg.P3
    [] op = "act4" -> cfg.P4
    [] op \in {"adj", "adjT", "jinvp"} -> cfg.A
    [] op \in {"retr", "add"} -> cfg.T
    [] OTHER -> <<>>

IsBin(op)       == op \in Br!BinOps
OutShape(cfg, op) == IF IsBin(op) THEN Br!Bcast(cfg.s1, cfg.s2) ELSE cfg.s1
InLtype(cfg, op) == IF op = "exp" THEN Br!AlgOf(cfg.ty) ELSE cfg.ty

\* ------------------------------------------------------------------ exact values beyond LieTrace
\* Exp of a rotation-free, scale-free algebra element: the exponential series stops after one term
ExpClause(ty, x, out) ==
  LET A == LT!DecodeAlg(ty, x)
      Z == LT!Decode(ty, out) IN
  IF ~LT!IsPureTrans(A) THEN "exp_input_not_exact"
  ELSE IF ~LT!SameElem(Z, LT!ExpT(A)) THEN "exp"
  ELSE IF ~LT!Valid(ty, Z) THEN "valid_out" ELSE "ok"

IsPureTransElem(X) == X.q = LT!QOne /\ X.s = LT!DOne
\* Log of a pure translation is its translation
LogClause(ty, x, out) ==
  LET X == LT!Decode(ty, x) IN
  IF ~IsPureTransElem(X) THEN "log_input_not_exact"
  ELSE IF out = LT!EncodeAlg(ty, LT!Alg(X.t, LT!VZero(3), LT!DZero)) THEN "ok" ELSE "log"

\* Jinvp(X, p) = Jl^-1(Log X) p,  Jl^-1(xi) = sum_n B_n / n! ad(xi)^n = I - ad(xi)/2 when ad(xi)^2 = 0,
\* which holds for a pure translation xi = (t, 0, 0); ad(xi) p = vee([hat xi, hat p]).
MatSub(M, N) == LT!MatAdd(M, LT!MatScale(LT!D(-1), N))
Bracket(A, P) == LT!Vee4(MatSub(LT!MatMul(LT!Hat4(A), LT!Hat4(P)), LT!MatMul(LT!Hat4(P), LT!Hat4(A))))
JinvpClause(ty, x, p, out) ==
  LET X  == LT!Decode(ty, x)
      xi == LT!Alg(X.t, LT!VZero(3), LT!DZero)
      P  == LT!DecodeAlg(ty, p)
      br == Bracket(xi, P)
      ex == LT!Alg(LT!VSub(P.tau, LT!VScale(LT!DHalf, br.tau)),
                   LT!VSub(P.phi, LT!VScale(LT!DHalf, br.phi)),
                   LT!DSub(P.sigma, LT!DMul(LT!DHalf, br.sigma))) IN
  IF ~IsPureTransElem(X) THEN "jinvp_input_not_exact"
  ELSE IF Bracket(xi, br) # LT!Alg(LT!VZero(3), LT!VZero(3), LT!DZero) THEN "jinvp_series_not_finite"
  ELSE IF out = LT!EncodeAlg(ty, ex) THEN "ok" ELSE "jinvp"

\* ------------------------------------------------------------------ clauses
CallClause(cfg, s, e) ==
  LET o == OutShape(cfg, e.op)
      r == Br!Res(e.op, InLtype(cfg, e.op)) IN
  CASE s.n # s.need -> "items_missing"
    [] e.raised /\ o = Br!Err -> "ok"
    \* (until repair 5e2bf0e the out-of-place add went through add_ on a clone of the first operand and raised whenever
    \*  the broadcast lshape differed from the first operand's; that was tolerated here although the item-by-item clause
    \*  covers it - the exemption hid a genuine defect and is gone: add broadcasts like every other binary operation)
    [] e.raised -> "raised_on_broadcastable"
    [] o = Br!Err -> "no_raise_on_unbroadcastable"
    [] Len(e.shape) # Len(o) + Len(r.tail) \/ SubSeq(e.shape, 1, Len(o)) # o -> "lshape"
    [] e.ltype # r.lt -> "ltype"
    [] SubSeq(e.shape, Len(o) + 1, Len(e.shape)) # r.tail -> "last_dimension"
    [] e.dt # cfg.dt -> "dtype"
    [] e.dev # "cpu" -> "device"
    [] OTHER -> "ok"

ItemClause(cfg, s, e) ==
  LET op == s.op
      o  == OutShape(cfg, op)
      k1 == Br!Flat(cfg.s1, Br!IdxMap(cfg.s1, o, e.I)) + 1
      k2 == Br!Flat(cfg.s2, Br!IdxMap(cfg.s2, o, e.I)) + 1
      x  == First(cfg, op)[k1]
      y  == IF IsBin(op) THEN Second(cfg, op)[k2] ELSE <<>> IN
  CASE op = "" -> "item_without_call"
    [] s.n >= s.need -> "extra_item"
    [] e.I # Br!Unflat(o, s.n) -> "item_order"
    [] op = "exp" -> ExpClause(cfg.ty, x, e.out)
    [] op = "log" -> LogClause(cfg.ty, x, e.out)
    [] op = "jinvp" -> JinvpClause(cfg.ty, x, y, e.out)
    [] OTHER -> LT!Stateless([op |-> IF op = "add" THEN "retr" ELSE op, ty |-> cfg.ty,
                              x |-> x, y |-> y, p |-> y, a |-> y, out |-> e.out])

ShapeClause(e) ==
  CASE ~Br!Judged(e.fn, e.inlib, e.lastdim, e.ty) -> "ok"      \* outside the property's scope
    [] e.raised /\ e.rraised -> "ok"                           \* torch itself refuses the call
    [] e.raised # e.rraised -> "raise_differs_from_tensor"
    [] ~e.is_lie -> "ltype_dropped"
    [] e.oltype # e.ty -> "ltype_changed"
    [] e.oshape # e.rshape -> "shape"
    [] e.odt # e.rdt -> "dtype"
    [] e.out # e.ref -> "items"
    [] OTHER -> "ok"

Clause(cfg, s, e) ==
  CASE e.act = "call"  -> CallClause(cfg, s, e)
    [] e.act = "item"  -> ItemClause(cfg, s, e)
    [] e.act = "end"   -> IF s.n # s.need THEN "items_missing" ELSE "ok"
    [] e.act = "shape" -> ShapeClause(e)
    [] OTHER -> "unknown_event"

NextSt(cfg, s, e) ==
  CASE e.act = "call" ->
         LET o == OutShape(cfg, e.op) IN
         [op |-> e.op, n |-> 0, need |-> IF e.raised \/ o = Br!Err THEN 0 ELSE Br!Numel(o)]
    [] e.act = "item" -> [s EXCEPT !.n = s.n + 1]
    [] OTHER -> [op |-> "", n |-> 0, need |-> 0]

Init == tid \in 1..Len(Traces) /\ l = 1 /\ st = [op |-> "", n |-> 0, need |-> 0] /\ verdict = "ok"

Next ==
  LET T == Traces[tid] IN
  /\ l <= Len(T.ev)
  /\ LET e  == T.ev[l]
         cl == Clause(T.cfg, st, e) IN
       /\ verdict' = IF verdict = "ok" /\ cl # "ok" THEN cl \o "@" \o ToString(l) ELSE verdict
       /\ st' = NextSt(T.cfg, st, e)
       /\ (l = Len(T.ev)) => PrintT(<<"VERDICT", tid, verdict'>>)
  /\ l' = l + 1 /\ UNCHANGED tid

Spec == Init /\ [][Next]_<<tid, l, st, verdict>>
================================================================================
