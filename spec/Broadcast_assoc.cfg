\* all 85^3 triples of lshapes of rank <= 3: broadcasting is associative (incl. definedness)
SPECIFICATION Spec
CONSTANTS
  MaxRank = 3
  Extents = {0, 1, 2, 3}
  Triples = TRUE
INVARIANT Associative
INVARIANT DefinedIffTorch
INVARIANT Symmetric
CHECK_DEADLOCK FALSE
