\* thorough: all streams of 1..3 frames over box "t" (2 dt x 2 acc x {2 known rotations, integrated}), 3 initial
\* rotations, gravity 0 / 9.75, every chunking
SPECIFICATION Spec
CONSTANTS
  XF = {1, 2, 3}
  Box = "t"
INVARIANT ChunkedIsRecursion
INVARIANT RowsAreRecursion
INVARIANT UnitRot
CHECK_DEADLOCK FALSE
