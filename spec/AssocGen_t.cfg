SPECIFICATION Spec
CONSTANTS
  GT = 10
  GN = 3
  GD = {1,2,3}
  GPairN = {1,2,3,4,5,6,7,8,9,10,11,12}
  GPairD = {1,2,3,4}
  GSteps = {1,2,3}
  GDistN = 6
