------------------------------- MODULE LieExact -------------------------------
(* Exact semantics of pypose's Lie-group operations on SO3, SE3, RxSO3 and Sim3,       *)
(* written from the mathematical definitions (Hamilton product, the 4x4 matrix          *)
(* representation [[s R, t], [0, 1]], adjoint by conjugation of generator matrices) --  *)
(* NOT from the formulas in pypose/lietensor/operation.py.  All numbers are dyadic      *)
(* rationals (module Dyadic), so on the lattice of Hurwitz unit quaternions, integer    *)
(* translations and power-of-two scales every operation is exact, in the spec and in    *)
(* IEEE arithmetic alike.                                                               *)
(*                                                                                      *)
(* A group element is a record [t, q, s]: translation, unit quaternion <<x,y,z,w>>,     *)
(* positive scale.  The tensor layouts of the four types are given by Decode/Encode.    *)
EXTENDS Dyadic, FiniteSets, TLC

Types == {"SO3", "SE3", "RxSO3", "Sim3"}

\* ------------------------------------------------------------------ quaternions
QV(q)     == <<q[1], q[2], q[3]>>
QOne      == <<DZero, DZero, DZero, DOne>>
QNeg(q)   == VNeg(q)
QConj(q)  == <<DNeg(q[1]), DNeg(q[2]), DNeg(q[3]), q[4]>>
QNorm2(q) == Dot(q, q)
QMul(p, q) ==
  LET pv == QV(p)  qv == QV(q)
      v  == VAdd(VAdd(VScale(p[4], qv), VScale(q[4], pv)), Cross(pv, qv))
      w  == DSub(DMul(p[4], q[4]), Dot(pv, qv))
  IN  <<v[1], v[2], v[3], w>>

\* rotation matrix of a unit quaternion:  (w^2 - v.v) I + 2 v v^T + 2 w [v]x
Rot(q) ==
  LET v == QV(q)  w == q[4] IN
  MatAdd(MatAdd(MatScale(DSub(DMul(w, w), Dot(v, v)), Ident(3)),
                MatScale(D(2), Outer(v, v))),
         MatScale(DDouble(w), Skew(v)))

\* ------------------------------------------------------------------ group elements
Elem(t, q, s) == [t |-> t, q |-> q, s |-> s]
Id            == Elem(VZero(3), QOne, DOne)

Mul(X, Y) == Elem(VAdd(X.t, VScale(X.s, MatVec(Rot(X.q), Y.t))), QMul(X.q, Y.q), DMul(X.s, Y.s))
Inv(X)    == LET si == DInvPow2(X.s)  qc == QConj(X.q) IN
             Elem(VNeg(VScale(si, MatVec(Rot(qc), X.t))), qc, si)

SameElem(X, Y) == X.t = Y.t /\ X.s = Y.s /\ (X.q = Y.q \/ X.q = QNeg(Y.q))

\* 4x4 homogeneous matrix [[s R, t], [0, 1]]
Mat4(X) ==
  LET sR == MatScale(X.s, Rot(X.q)) IN
  << <<sR[1][1], sR[1][2], sR[1][3], X.t[1]>>,
     <<sR[2][1], sR[2][2], sR[2][3], X.t[2]>>,
     <<sR[3][1], sR[3][2], sR[3][3], X.t[3]>>,
     <<DZero, DZero, DZero, DOne>> >>
Mat3(X) == MatScale(X.s, Rot(X.q))

\* the documented representation per type: 3x3 for SO3, homogeneous 4x4 for SE3 / RxSO3 / Sim3
MatrixOf(ty, X) == IF ty = "SO3" THEN Mat3(X) ELSE Mat4(X)

\* point actions
Act3(X, p) == VAdd(VScale(X.s, MatVec(Rot(X.q), p)), X.t)
Act4(X, p) == MatVec(Mat4(X), p)
\* the same action through the quaternion sandwich  q (p, 0) q*
ActQ(X, p) == LET r == QMul(QMul(X.q, <<p[1], p[2], p[3], DZero>>), QConj(X.q)) IN
              VAdd(VScale(X.s, QV(r)), X.t)

Valid(ty, X) ==
  /\ QNorm2(X.q) = DOne
  /\ DIsPos(X.s)
  /\ (ty \in {"SO3", "SE3"} => X.s = DOne)
  /\ (ty \in {"SO3", "RxSO3"} => X.t = VZero(3))

\* ------------------------------------------------------------------ tensor layouts
Decode(ty, x) ==
  CASE ty = "SO3"   -> Elem(VZero(3), <<x[1], x[2], x[3], x[4]>>, DOne)
    [] ty = "SE3"   -> Elem(<<x[1], x[2], x[3]>>, <<x[4], x[5], x[6], x[7]>>, DOne)
    [] ty = "RxSO3" -> Elem(VZero(3), <<x[1], x[2], x[3], x[4]>>, x[5])
    [] ty = "Sim3"  -> Elem(<<x[1], x[2], x[3]>>, <<x[4], x[5], x[6], x[7]>>, x[8])
Encode(ty, X) ==
  CASE ty = "SO3"   -> X.q
    [] ty = "SE3"   -> X.t \o X.q
    [] ty = "RxSO3" -> X.q \o <<X.s>>
    [] ty = "Sim3"  -> X.t \o X.q \o <<X.s>>
GroupDim(ty) == CASE ty = "SO3" -> 4 [] ty = "SE3" -> 7 [] ty = "RxSO3" -> 5 [] ty = "Sim3" -> 8
AlgDim(ty)   == CASE ty = "SO3" -> 3 [] ty = "SE3" -> 6 [] ty = "RxSO3" -> 4 [] ty = "Sim3" -> 7

\* ------------------------------------------------------------------ Lie algebra
\* algebra element [tau, phi, sigma]; layouts so3: phi; se3: tau,phi; rxso3: phi,sigma; sim3: tau,phi,sigma
Alg(tau, phi, sigma) == [tau |-> tau, phi |-> phi, sigma |-> sigma]
DecodeAlg(ty, a) ==
  CASE ty = "SO3"   -> Alg(VZero(3), <<a[1], a[2], a[3]>>, DZero)
    [] ty = "SE3"   -> Alg(<<a[1], a[2], a[3]>>, <<a[4], a[5], a[6]>>, DZero)
    [] ty = "RxSO3" -> Alg(VZero(3), <<a[1], a[2], a[3]>>, a[4])
    [] ty = "Sim3"  -> Alg(<<a[1], a[2], a[3]>>, <<a[4], a[5], a[6]>>, a[7])
EncodeAlg(ty, A) ==
  CASE ty = "SO3"   -> A.phi
    [] ty = "SE3"   -> A.tau \o A.phi
    [] ty = "RxSO3" -> A.phi \o <<A.sigma>>
    [] ty = "Sim3"  -> A.tau \o A.phi \o <<A.sigma>>

\* generator matrix  [[sigma I + [phi]x, tau], [0, 0]]
Hat4(A) ==
  LET K == MatAdd(MatScale(A.sigma, Ident(3)), Skew(A.phi)) IN
  << <<K[1][1], K[1][2], K[1][3], A.tau[1]>>,
     <<K[2][1], K[2][2], K[2][3], A.tau[2]>>,
     <<K[3][1], K[3][2], K[3][3], A.tau[3]>>,
     <<DZero, DZero, DZero, DZero>> >>
\* inverse of Hat4 on matrices of that form
Vee4(M) == Alg(<<M[1][4], M[2][4], M[3][4]>>, <<M[3][2], M[1][3], M[2][1]>>, M[1][1])
IsGenerator(M) ==
  /\ M[4] = <<DZero, DZero, DZero, DZero>>
  /\ M[1][1] = M[2][2] /\ M[2][2] = M[3][3]
  /\ M[1][2] = DNeg(M[2][1]) /\ M[1][3] = DNeg(M[3][1]) /\ M[2][3] = DNeg(M[3][2])

\* Adj(X) a  is defined by   Mat(X) hat(a) Mat(X)^-1 = hat(Adj(X) a)
AdjM(X, A)  == MatMul(MatMul(Mat4(X), Hat4(A)), Mat4(Inv(X)))
Adj(X, A)   == Vee4(AdjM(X, A))
\* AdjT(X) a  is defined by  Mat(X)^-1 hat(a) Mat(X) = hat(AdjT(X) a)
AdjT(X, A)  == Vee4(MatMul(MatMul(Mat4(Inv(X)), Hat4(A)), Mat4(X)))

\* Exp of a pure translation generator (phi = 0, sigma = 0): the series stops after one term
IsPureTrans(A) == A.phi = VZero(3) /\ A.sigma = DZero
ExpT(A)        == Elem(A.tau, QOne, DOne)
Retr(X, A)     == Mul(ExpT(A), X)          \* Retr(X, a) = X + a = Exp(a) @ X

\* ------------------------------------------------------------------ the lattice
Halves == {<<1, 1>>, <<-1, 1>>}
Units24 ==
  { <<D(s), DZero, DZero, DZero>> : s \in {1, -1} } \cup
  { <<DZero, D(s), DZero, DZero>> : s \in {1, -1} } \cup
  { <<DZero, DZero, D(s), DZero>> : s \in {1, -1} } \cup
  { <<DZero, DZero, DZero, D(s)>> : s \in {1, -1} } \cup
  { <<a, b, c, d>> : a \in Halves, b \in Halves, c \in Halves, d \in Halves }
IntVec3(lo, hi) == { <<D(a), D(b), D(c)>> : a \in lo..hi, b \in lo..hi, c \in lo..hi }
ScalesPow2(k)   == { <<Pow2(j), 0>> : j \in 0..k } \cup { <<1, j>> : j \in 1..k }
================================================================================
