--------------------------- MODULE PointCloudTrace ---------------------------
(* Validates recorded calls of the real pypose functions knn, nbr_filter, knn_filter,  *)
(* voxel_filter, random_filter on integer clouds against the operators of PointCloud.   *)
(* The harness logs raw integers only (inputs, returned indices, masks, kept rows,      *)
(* distances -- squared for ord = 2 --, means/centroids as reduced fractions [n, d]);   *)
(* every expected value is computed here.                                               *)
(*                                                                                      *)
(* One event per public call (per batch element for batched calls).  An event may carry  *)
(* a permutation `perm` (new[i] = old[perm[i]]) relating its input to the input of the   *)
(* previous event of the trace: then the two recorded RESULTS are also compared directly  *)
(* (permutation equivariance on the real outputs; an event with a permutation but       *)
(* without its base call is rejected).  Index claims are made only where the  *)
(* answer is determined (no tie); distances, masks and counts are judged always.          *)
(* Verdicts are total: first failing clause by name, "clause@eventindex".                 *)
EXTENDS Naturals, Integers, Sequences, FiniteSets, TLC, Json, IOUtils

Traces == JsonDeserialize(IOEnv.TRACE_FILE)

PC == INSTANCE PointCloud WITH
        Grid <- {}, PD <- 0, MaxN <- 0, Ords <- {}, Radii <- {}, VoxSizes <- {}, Gather <- "all",
        base <- <<>>, pts <- <<>>, sigma <- <<>>, call <- [fn |-> "none"], res <- <<>>

VARIABLES tid, l, st, verdict
\* st = the previous event of the trace (or [act |-> "none"])

Min(S) == CHOOSE x \in S : \A y \in S : x <= y
IsPerm(p, n) == Len(p) = n /\ PC!Injective(p) /\ \A i \in 1..n : p[i] \in 1..n
Permuted(new, old, p) == IsPerm(p, Len(old)) /\ Len(new) = Len(old) /\ \A i \in 1..Len(new) : new[i] = old[p[i]]

\* ------------------------------------------------------------------ knn
KnnRow(e, i) ==
  PC!KnnRowClause(PC!DistRow(e.ord, e.pd, e.R[i], e.Q), e.k, e.largest, e.sorted, e.vals[i], e.idx[i])

\* the answer of row i is determined: strictly ordered and strictly separated from the rest
KnnRowDetermined(e, i) ==
  LET dr == PC!DistRow(e.ord, e.pd, e.R[i], e.Q)
      kr == PC!KeyRow(dr, e.largest)
      w  == PC!KeyOf(e.largest, e.vals[i][e.k])
  IN /\ \A j \in 1..(e.k - 1) : PC!KeyOf(e.largest, e.vals[i][j]) < PC!KeyOf(e.largest, e.vals[i][j + 1])
     /\ Cardinality({b \in 1..Len(dr) : kr[b] <= w}) = e.k

KnnEquiv(e, s) ==
  IF ~(Permuted(e.R, s.R, e.perm_r) /\ Permuted(e.Q, s.Q, e.perm_q)) THEN "perm_claim"
  ELSE IF \E i \in 1..Len(e.R) : e.vals[i] # s.vals[e.perm_r[i]] THEN "knn_equivariance_values"
  ELSE IF \E i \in 1..Len(e.R) : KnnRowDetermined(e, i) /\
            \E j \in 1..e.k : e.perm_q[e.idx[i][j]] # s.idx[e.perm_r[i]][j] THEN "knn_equivariance_indices"
  ELSE "ok"

KnnClause(e, s) ==
  IF Len(e.vals) # Len(e.R) \/ Len(e.idx) # Len(e.R) THEN "knn_shape"
  ELSE LET bad == {i \in 1..Len(e.R) : KnnRow(e, i) # "ok"} IN
    IF bad # {} THEN KnnRow(e, Min(bad))
    ELSE IF e.perm_r # <<>> /\ s.act # "knn" THEN "missing_base_call"
    ELSE IF e.perm_r # <<>> /\ e.sorted /\ s.sorted /\ e.k > 0 THEN KnnEquiv(e, s)
    ELSE "ok"

\* ------------------------------------------------------------------ nbr_filter
NbrClause(e, s) ==
  LET m == PC!NbrMask(e.ord, e.pd, e.P, e.n, e.rh) IN
  CASE e.has_mask /\ Len(e.mask) # Len(e.P)      -> "nbr_mask_shape"
    [] e.has_mask /\ e.mask # m                  -> "nbr_mask"
    [] e.kept # PC!SelRows(e.P, m)               -> "nbr_kept"
    [] e.perm # <<>> /\ s.act # "nbr"             -> "missing_base_call"
    [] e.perm # <<>> /\ s.act = "nbr" /\ ~Permuted(e.P, s.P, e.perm) -> "perm_claim"
    [] e.perm # <<>> /\ s.act = "nbr" /\ e.has_mask /\ s.has_mask /\
         (\E i \in 1..Len(e.P) : e.mask[i] # s.mask[e.perm[i]]) -> "nbr_equivariance"
    [] e.perm # <<>> /\ s.act = "nbr" /\ PC!Range(e.kept) # PC!Range(s.kept) -> "nbr_equivariance"
    [] OTHER -> "ok"

\* ------------------------------------------------------------------ knn_filter
Retained(e) == IF e.rh < 0 THEN [i \in 1..Len(e.P) |-> i]
               ELSE PC!SelIdx(PC!NbrMask(e.ord, e.pd, e.P, e.k, e.rh), 1)
PosOf(seq, x) == CHOOSE r \in DOMAIN seq : seq[r] = x

KnnfClause(e, s) ==
  LET x == PC!KnnfImpl(e.ord, e.pd, e.P, e.k, e.rh, "all") IN
  IF x.raised THEN "knnf_unjudged_input"
  ELSE IF Len(e.rows) # Len(x.rows) THEN "knnf_count"
  ELSE IF \E r \in DOMAIN x.rows : x.rows[r].judged /\ e.rows[r] # x.rows[r].row THEN "knnf_row"
  ELSE IF e.perm # <<>> /\ s.act # "knnf" THEN "missing_base_call"
  ELSE IF e.perm # <<>> THEN
    IF ~Permuted(e.P, s.P, e.perm) THEN "perm_claim"
    ELSE LET old == Retained(s) IN
      IF Len(old) # Len(s.rows) \/ Len(old) # Len(e.rows) THEN "knnf_equivariance"
      ELSE IF \E r \in DOMAIN x.rows : x.rows[r].judged /\
                e.rows[r] # s.rows[PosOf(old, e.perm[x.rows[r].i])] THEN "knnf_equivariance"
      ELSE "ok"
  ELSE "ok"

\* ------------------------------------------------------------------ voxel_filter / random_filter
VoxClause(e, s) ==
  LET c == PC!VoxelClause(e.P, e.vs, e.random, e.rows) IN
  IF c # "ok" THEN c
  ELSE IF e.perm # <<>> /\ s.act # "vox" THEN "missing_base_call"
  ELSE IF e.perm # <<>> /\ ~e.random /\ ~s.random THEN
    IF ~Permuted(e.P, s.P, e.perm) THEN "perm_claim"
    ELSE IF PC!Range(e.rows) # PC!Range(s.rows) THEN "vox_equivariance" ELSE "ok"
  ELSE "ok"

RandClause(e) ==
  IF ~PC!Injective(e.P) THEN "rand_unjudged_input" ELSE PC!RandomClause(e.P, e.num, e.rows)

Clause(e, s) ==
  CASE e.act = "knn"   -> KnnClause(e, s)
    [] e.act = "nbr"   -> NbrClause(e, s)
    [] e.act = "knnf"  -> KnnfClause(e, s)
    [] e.act = "vox"   -> VoxClause(e, s)
    [] e.act = "rand"  -> RandClause(e)
    [] e.act = "raise" -> "raised"
    [] OTHER -> "unknown_event"

Init == tid \in 1..Len(Traces) /\ l = 1 /\ st = [act |-> "none"] /\ verdict = "ok"

Next ==
  LET T == Traces[tid] IN
  /\ l <= Len(T.ev)
  /\ LET e == T.ev[l]
         cl == Clause(e, st) IN
       /\ verdict' = IF verdict = "ok" /\ cl # "ok" THEN cl \o "@" \o ToString(l) ELSE verdict
       /\ st' = e
       /\ (l = Len(T.ev)) => PrintT(<<"VERDICT", tid, verdict'>>)
  /\ l' = l + 1 /\ UNCHANGED tid

Spec == Init /\ [][Next]_<<tid, l, st, verdict>>
================================================================================
