------------------------------ MODULE KalmanGen ------------------------------
(* spec -> code for C13.  TLC enumerates integer systems of the Kalman design lattice   *)
(* (thinned by a checksum stride), evaluates the design module on each of them and      *)
(* writes, with JsonSerialize, the instance together with the exact posteriors as       *)
(* fractions <<num, den>>:                                                              *)
(*   kf   the Kalman posterior (linear instances) -- what EKF and UKF must return       *)
(*   ekf  the EKF-as-documented posterior (all instances; = kf on linear ones)          *)
(*   pf   posterior mean of the documented particle model (linear instances)            *)
(* and `runs`: sequences of steps of one system in which every next prior is re-seeded  *)
(* from the spec's own posterior (Kalman!ReseedInst).  Every linear row is only written *)
(* after TLC has checked UKF = KF = EKF on it (RowOK), so the table handed to the       *)
(* harness is one on which the design identities hold.                                  *)
EXTENDS Integers, Sequences, SequencesExt, FiniteSets, TLC, Json, IOUtils

CONSTANTS GDims, GNKs, GNA, GDL, GNL, GDL2, GNL2, GNC, GNRs, GCoarse, GThin2, GStride, GStrideM, GStrideN, GRunLen, GRunStride

K == INSTANCE Kalman WITH
       Variant <- "doc", Dims <- GDims, NKs <- GNKs, NA <- GNA, DL <- GDL, NL <- GNL,
       DL2 <- GDL2, NL2 <- GNL2, NC <- GNC, NRs <- GNRs, MeanFam <- TRUE, NonLin <- TRUE,
       MaxSteps <- GRunLen, NKm <- {1, 3}, Thin <- 1, Thin2 <- GThin2, ThinM <- 1,
       inst <- <<>>, ph <- "none", est <- <<>>, pred <- <<>>, out <- <<>>

\* ---- thinning: a checksum over the entries that vary inside a family
SumV(v) == LET RECURSIVE S(_)
               S(k) == IF k = 0 THEN 0 ELSE S(k - 1) + (2 * k + 1) * v[k] IN S(Len(v))
SumM(M) == LET RECURSIVE S(_)
               S(k) == IF k = 0 THEN 0 ELSE S(k - 1) + (3 * k + 2) * SumV(M[k]) IN S(Len(M))
Check(I) == SumM(I.A) + 5 * SumM(I.Lp) + 7 * SumM(I.L2p) + 11 * SumM(I.C) + 13 * SumM(I.R)
            + 17 * SumV(I.x) + 19 * I.nk + 23 * I.m + 29 * SumV(I.fa) + 31 * SumV(I.ga) + 37 * SumV(I.c1)
Keep(I, stride) == (Check(I) % (IF I.n = 1 THEN (stride \div 8) + 1 ELSE stride)) = 0

\* two-level thinning: coarse choices first (family, dims, n+k, A: for every (n+k, dims) another residue
\* class of A), then the instances completing them
KeepC(c) == \/ K!DimN(c.d) = 1
            \/ (K!ASum(c.A) % GCoarse) = ((c.nk + c.d) % GCoarse)
StrideOf(I) == CASE I.fam = "cov" -> GStride [] I.fam = "mean" -> GStrideM [] OTHER -> GStrideN
Pool == UNION { K!Insts(c) : c \in {cc \in K!Coarse : KeepC(cc)} }

\* ---- one row per (instance, measurement)
Row(I, yi) ==
  LET e  == K!PriorOf(I)
      s  == K!SysOf(I)
      u  == K!QV(I.u)
      l  == K!Linearise(s, e.x, u)
      pr == K!KFPredict(l, e.x, e.P, u)
      o  == K!Posteriors(I, e, pr, yi)
      lin == K!IsLinear(s) IN
  [inst |-> [I EXCEPT !.ys = <<>>], y |-> yi, linear |-> lin,
   P |-> K!IP(I), Q |-> K!IQ(I),
   ekf |-> [x |-> o.ekf.x, P |-> o.ekf.P],
   kf  |-> IF lin THEN o.kf ELSE <<>>,
   pf  |-> IF lin THEN K!PFModel(s, e.x, e.P, u, K!QV(yi)).x ELSE <<>>,
   ok  |-> IF lin THEN /\ o.ukf.x = o.kf.x /\ o.ukf.P = o.kf.P /\ o.ukf.factors
                       /\ o.ekf.x = o.kf.x /\ o.ekf.P = o.kf.P
                       /\ K!PSD(o.kf.P) /\ K!LoewnerLe(o.kf.P, pr.P)
           ELSE K!PSD(o.ekf.P) /\ o.ekf.P = o.kf.P /\ o.ekf.x = K!VAdd(o.kf.x, o.res)]

RowsOf(S) == { Row(r[1], r[2]) : r \in UNION { {<<I, yi>> : yi \in I.ys} : I \in S } }

\* ---- runs: same system, re-seeded priors.  (FoldLeft is evaluated iteratively by TLC's Java override; a
\* RECURSIVE operator re-evaluates its lazily passed argument and gets slower with every step.)
RunOf(I0, T) ==
  LET Stp(acc, i) ==
        IF acc.done THEN acc
        ELSE LET I  == acc.inst
                 yi == CHOOSE y \in I.ys : TRUE
                 r  == Row(I, yi)
                 nx == K!ReseedInst(I, IF r.linear THEN r.kf ELSE r.ekf) IN
             [inst |-> nx, rows |-> Append(acc.rows, r), done |-> ~K!ValidInst(nx)]
  IN FoldLeft(Stp, [inst |-> I0, rows |-> <<>>, done |-> FALSE], [i \in 1..T |-> i]).rows

ASSUME
  LET pool  == Pool
      rows  == RowsOf({I \in pool : Keep(I, StrideOf(I))})
      runs  == { RunOf(I, GRunLen) : I \in {J \in pool : J.fam # "cov" /\ Keep(J, GRunStride)} }
      allok == (\A r \in rows : r.ok) /\ (\A run \in runs : \A i \in DOMAIN run : run[i].ok) IN
  /\ PrintT(<<"GEN", Cardinality(rows), Cardinality(runs), allok>>)
  /\ JsonSerialize(IOEnv.OUT_FILE, [rows |-> rows, runs |-> runs, ok |-> allok])

VARIABLE x
Init == x = 0
Next == UNCHANGED x
Spec == Init /\ [][Next]_x
================================================================================
