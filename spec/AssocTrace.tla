------------------------------ MODULE AssocTrace ------------------------------
(* Validates recorded calls of pypose.metric.ape / rpe, their helpers                  *)
(* (matching_time_indices, pair_id) and pypose.geodesic_loss against Assoc.            *)
(*                                                                                     *)
(* Trace kinds (cfg.kind):                                                             *)
(*  "match"  matching_time_indices on integer timestamps: the returned index lists     *)
(*           are compared with the association computed here (Assoc!IsAssoc) when      *)
(*           both lists are 2d-separated (jitter below the threshold); otherwise only  *)
(*           the threshold is judged.                                                  *)
(*  "pairs"  pair_id: frame pairing (all / stride) and distance pairing on integer     *)
(*           path lengths, compared with Assoc!FramePairs / DistAllOk / DistStridePairs *)
(*  "apex"   ape / rpe (translation error) on integer trajectories with integer        *)
(*           timestamps: association, pairing, error norms and the statistics are      *)
(*           recomputed here from the raw inputs; outputs are logged as fractions.     *)
(*  "geo"    geodesic_loss on the 24 rotations of the cube: outputs logged in units    *)
(*           of pi/6 (+ residual in ulps), compared with the trace -> angle table;     *)
(*           on general rotations: ulps against the angle of the relative quaternion,  *)
(*           symmetry and range.                                                       *)
(*  "met"    measured clauses on general trajectories (integer ulps): zero error for   *)
(*           identical trajectories, rpe invariance under left multiplication, ape     *)
(*           invariance under rigid / similarity transforms with align(/scale),        *)
(*           Max >= RMSE >= Mean >= Min >= 0.                                          *)
EXTENDS Naturals, Integers, Sequences, FiniteSets, TLC, Json, IOUtils

Traces == JsonDeserialize(IOEnv.TRACE_FILE)

A == INSTANCE Assoc WITH TMax <- 0, N1Max <- 0, N2Max <- 0, DSet <- {}, PairN <- {}, PairD <- {},
                         StepSet <- {}, DistNMax <- 0, EMax <- 0, ENMax <- 0,
                         task <- "", inp <- <<>>, i <- 0, acc <- 0, out <- <<>>

VARIABLES tid, l, st, verdict
\* st = number of events consumed (the checks are per call; no state is carried between calls)

\* tolerances in ulps (eps * max(1, scale)); each >= 4 x what the unchanged tree measures
GeoTol  == 64
GeoRTol == 64
ZeroTol == 4096
InvTol  == 4096
OrdTol  == 16

Zip(a, b) == [k \in 1..Len(a) |-> <<a[k], b[k]>>]
Shift(q, off) == [k \in 1..Len(q) |-> q[k] + off]

\* ---------------------------------------------------------------- association
\* (under 2d-separation Assoc!MatchNoTies holds, so Assoc!AssocPairs is the only sequence
\* satisfying Assoc!IsAssoc -- checked by the design invariant MatchComplete)
MatchClause(cfg, e) ==
  LET s2 == Shift(cfg.s2, cfg.off)
      want == A!AssocPairs(cfg.s1, s2, cfg.d) IN
  CASE Len(e.a) # Len(e.b) -> "lengths"
    [] ~A!SoundAssoc(cfg.s1, s2, cfg.d, e.a, e.b) -> "pair_outside_threshold"
    [] ~(A!Separated(cfg.s1, 2 * cfg.d) /\ A!Separated(s2, 2 * cfg.d)) -> "ok"   \* not judged further
    [] Zip(e.a, e.b) = want -> "ok"
    [] A!Range(e.a) # {want[k][1] : k \in DOMAIN want} -> "matched_set"
    [] OTHER -> "association"

\* ---------------------------------------------------------------- pairing
PairsClause(cfg, e) ==
  CASE Len(e.a) # Len(e.b) -> "lengths"
    [] cfg.mode = "frame" ->
         (IF Zip(e.a, e.b) = A!FramePairs(cfg.n, cfg.dl, cfg.all) THEN "ok"
          ELSE IF cfg.all THEN "frame_pairs_all" ELSE "frame_pairs_stride")
    [] cfg.mode = "dist" /\ cfg.all ->
         (IF A!DistAllOk(cfg.cd, cfg.dl, cfg.tol, e.a, e.b) THEN "ok" ELSE "dist_pairs_all")
    [] cfg.mode = "dist" ->
         (IF Zip(e.a, e.b) = A!DistStridePairs(cfg.cd, cfg.dl) THEN "ok" ELSE "dist_pairs_stride")
    [] OTHER -> "unknown_mode"

\* ---------------------------------------------------------------- ape / rpe, exact pipeline
Errors(cfg) ==
  LET P == A!TrajPairs(cfg.rs, cfg.es, cfg.d) IN        \* <<ref index, est index>>, 0-based
  IF cfg.metric = "ape"
  THEN [k \in 1..Len(P) |-> A!Norm2(cfg.ep[P[k][2] + 1], cfg.rp[P[k][1] + 1])]
  ELSE LET Q == A!FramePairs(Len(P), cfg.dl, cfg.all)
           Rel(p, x, y) == [c \in 1..3 |-> p[y][c] - p[x][c]]
       IN [k \in 1..Len(Q) |->
             A!Norm2(Rel(cfg.ep, P[Q[k][1] + 1][2] + 1, P[Q[k][2] + 1][2] + 1),
                     Rel(cfg.rp, P[Q[k][1] + 1][1] + 1, P[Q[k][2] + 1][1] + 1))]

\* f = <<num, den>> equals a / b
FracIs(f, a, b) == f[2] > 0 /\ f[1] * b = a * f[2]

ApexClause(cfg, e) ==
  LET sq == Errors(cfg) IN
  CASE ~(A!Separated(cfg.rs, 2 * cfg.d) /\ A!Separated(cfg.es, 2 * cfg.d)) -> "harness_not_separated"
    [] Len(sq) = 0 -> "harness_no_pairs"
    [] \E k \in 1..Len(sq) : ~A!IsSquare(sq[k]) -> "harness_not_square"
    [] e.off -> "off_lattice"
    [] OTHER ->
       LET err == [k \in 1..Len(sq) |-> A!ISqrt(sq[k])]
           n == Len(err)
       IN CASE ~FracIs(e.Max, A!StMax(err), 1)   -> "Max"
            [] ~FracIs(e.Min, A!StMin(err), 1)   -> "Min"
            [] ~FracIs(e.Mean, A!StSum(err), n)  -> "Mean"
            [] ~FracIs(e.SSE, A!StSSE(err), 1)   -> "SSE"
            [] ~FracIs(e.RMSE2, A!StSSE(err), n) -> "RMSE"
            [] OTHER -> "ok"

\* ---------------------------------------------------------------- geodesic angle table
GeoClause(cfg, e) ==
  LET n == Len(e.ra)
      units == [k \in 1..n |-> A!GeoUnits(e.ra[k], e.rb[k])]
  IN CASE Len(e.rb) # n -> "harness_batch"
       [] \E k \in 1..n : e.ra[k] \notin A!Rot24 \/ e.rb[k] \notin A!Rot24 -> "harness_not_lattice"
       [] cfg.red = "none" /\ e.u6 # units -> "angle"
       [] cfg.red # "none" /\ e.u6 # <<A!SeqSum(units)>> -> ("angle_" \o cfg.red)
       [] e.res > GeoTol -> "angle_ulps"
       [] OTHER -> "ok"

\* general rotations: measured against the angle of the relative quaternion, symmetry, range [0, pi]
GeoRClause(e) ==
  CASE ~e.shape          -> "angle_shape"
    [] e.range > GeoTol  -> "angle_range"
    [] e.sym > GeoTol    -> "angle_symmetry"
    [] e.ulps > GeoRTol  -> "angle_value"
    [] OTHER -> "ok"

\* ---------------------------------------------------------------- measured clauses
MetClause(cfg, e) ==
  CASE e.act = "zero" -> (IF e.ulps > ZeroTol THEN cfg.metric \o "_zero" ELSE "ok")
    [] e.act = "inv"  -> (IF e.ulps > InvTol THEN e.what ELSE "ok")
    [] e.act = "order" ->
         (IF e.d[1] > OrdTol THEN "order_max_rmse"
          ELSE IF e.d[2] > OrdTol THEN "order_rmse_mean"
          ELSE IF e.d[3] > OrdTol THEN "order_mean_min"
          ELSE IF e.d[4] > OrdTol THEN "order_min_nonneg" ELSE "ok")
    [] OTHER -> "unknown_event"

Clause(cfg, e) ==
  CASE e.act = "raise" -> "raised"
    [] cfg.kind = "match" /\ e.act = "match" -> MatchClause(cfg, e)
    [] cfg.kind = "pairs" /\ e.act = "pairs" -> PairsClause(cfg, e)
    [] cfg.kind = "apex"  /\ e.act = "stats" -> ApexClause(cfg, e)
    [] cfg.kind = "geo"   /\ e.act = "geo"   -> GeoClause(cfg, e)
    [] cfg.kind = "geo"   /\ e.act = "geoR"  -> GeoRClause(e)
    [] cfg.kind = "met" -> MetClause(cfg, e)
    [] OTHER -> "unknown_event"

\* every trace carries the number of events the harness recorded
Complete(T, k) == IF k = Len(T.ev) /\ Len(T.ev) # T.cfg.nev THEN "events_missing" ELSE "ok"

Init == tid \in 1..Len(Traces) /\ l = 1 /\ st = 0 /\ verdict = "ok"

Next ==
  LET T == Traces[tid] IN
  /\ l <= Len(T.ev)
  /\ LET e == T.ev[l]
         c0 == Clause(T.cfg, e)
         cl == IF c0 # "ok" THEN c0 ELSE Complete(T, l) IN
       /\ verdict' = IF verdict = "ok" /\ cl # "ok" THEN cl \o "@" \o ToString(l) ELSE verdict
       /\ st' = st + 1
       /\ (l = Len(T.ev)) => PrintT(<<"VERDICT", tid, verdict'>>)
  /\ l' = l + 1 /\ UNCHANGED tid

Spec == Init /\ [][Next]_<<tid, l, st, verdict>>
================================================================================
