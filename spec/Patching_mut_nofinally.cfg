\* mutant: retain_ltype without try/finally -- RestoredWhenQuiescent must be violated
SPECIFICATION Spec
CONSTANTS
  MaxDepth = 2
  Points = 2
  HasFinally = FALSE
INVARIANT RestoredWhenQuiescent
INVARIANT FrameRestores
INVARIANT WrappedInside
INVARIANT NoWrapperChains
INVARIANT DepthBound
INVARIANT TypeOK
CHECK_DEADLOCK FALSE
