--------------------------------- MODULE LieJac ---------------------------------
(* Exact first derivatives of programs over the LieTensor operators, by dual numbers     *)
(* <<re, du>> over dyadic rationals (module Dyadic).  R is LieRing over the dual ring;    *)
(* a group input X is perturbed on the LEFT,  Exp(eps e_i) @ X,  an algebra or Euclidean  *)
(* input additively; the dual part of the program's (algebra- or Euclidean-valued)        *)
(* output is column i of the true Jacobian.  Serves C04 (autograd) and C07 (optimizers).  *)
EXTENDS Dyadic, FiniteSets

\* ------------------------------------------------------------------ dual numbers
UAdd(a, b) == <<DAdd(a[1], b[1]), DAdd(a[2], b[2])>>
UNeg(a)    == <<DNeg(a[1]), DNeg(a[2])>>
UMul(a, b) == <<DMul(a[1], b[1]), DAdd(DMul(a[1], b[2]), DMul(a[2], b[1]))>>
UInv(a)    == LET i == DInvPow2(a[1]) IN <<i, DNeg(DMul(a[2], DMul(i, i)))>>
U(d)       == <<d, DZero>>           \* constant
Re(a)      == a[1]
Du(a)      == a[2]

R == INSTANCE LieRing WITH RAdd <- UAdd, RMul <- UMul, RNeg <- UNeg, RInv <- UInv,
                           RZero <- U(DZero), ROne <- U(DOne), RTwo <- U(D(2)), RHalf <- U(DHalf)

\* the same formulas over plain dyadics (must agree with LieExact; see LieJacMC)
P == INSTANCE LieRing WITH RAdd <- DAdd, RMul <- DMul, RNeg <- DNeg, RInv <- DInvPow2,
                           RZero <- DZero, ROne <- DOne, RTwo <- D(2), RHalf <- DHalf

\* ------------------------------------------------------------------ typed values
\* kinds: "G" group element (record t,q,s), "A" algebra element (record tau,phi,sigma), "V" vector (tuple)
GDim(ty) == CASE ty = "SO3" -> 4 [] ty = "SE3" -> 7 [] ty = "RxSO3" -> 5 [] ty = "Sim3" -> 8
ADim(ty) == CASE ty = "SO3" -> 3 [] ty = "SE3" -> 6 [] ty = "RxSO3" -> 4 [] ty = "Sim3" -> 7
Z3 == <<U(DZero), U(DZero), U(DZero)>>

\* tensor layouts -> values (x is a tuple of ring elements)
DecG(ty, x) ==
  CASE ty = "SO3"   -> R!Elem(Z3, <<x[1], x[2], x[3], x[4]>>, U(DOne))
    [] ty = "SE3"   -> R!Elem(<<x[1], x[2], x[3]>>, <<x[4], x[5], x[6], x[7]>>, U(DOne))
    [] ty = "RxSO3" -> R!Elem(Z3, <<x[1], x[2], x[3], x[4]>>, x[5])
    [] ty = "Sim3"  -> R!Elem(<<x[1], x[2], x[3]>>, <<x[4], x[5], x[6], x[7]>>, x[8])
DecA(ty, a) ==
  CASE ty = "SO3"   -> R!Alg(Z3, <<a[1], a[2], a[3]>>, U(DZero))
    [] ty = "SE3"   -> R!Alg(<<a[1], a[2], a[3]>>, <<a[4], a[5], a[6]>>, U(DZero))
    [] ty = "RxSO3" -> R!Alg(Z3, <<a[1], a[2], a[3]>>, a[4])
    [] ty = "Sim3"  -> R!Alg(<<a[1], a[2], a[3]>>, <<a[4], a[5], a[6]>>, a[7])
EncA(ty, A) ==
  CASE ty = "SO3"   -> A.phi
    [] ty = "SE3"   -> A.tau \o A.phi
    [] ty = "RxSO3" -> A.phi \o <<A.sigma>>
    [] ty = "Sim3"  -> A.tau \o A.phi \o <<A.sigma>>
FlatM(ty, X) == LET M == R!Mat4(X) IN
  IF ty = "SO3" THEN <<M[1][1], M[1][2], M[1][3], M[2][1], M[2][2], M[2][3], M[3][1], M[3][2], M[3][3]>>
  ELSE M[1] \o M[2] \o M[3] \o M[4]

Lift(v)      == TLCEval([i \in DOMAIN v |-> U(v[i])])                      \* constant tuple
Seed(v, i)   == TLCEval([j \in DOMAIN v |-> <<v[j], IF i = j THEN DOne ELSE DZero>>])   \* v + eps e_i
UnitA(ty, i) == DecA(ty, TLCEval([j \in 1..ADim(ty) |-> <<DZero, IF i = j THEN DOne ELSE DZero>>]))   \* eps e_i
\* left perturbation  Exp(eps e_i) @ X
PertG(ty, x, i) == R!Mul(R!ExpNearTrans(UnitA(ty, i)), DecG(ty, Lift(x)))

\* sign-normalise a group value whose real rotation part is -1 (same rotation), for Log
NormQ(X) == IF Re(X.q[4]) = D(-1) THEN R!Elem(X.t, <<UNeg(X.q[1]), UNeg(X.q[2]), UNeg(X.q[3]), UNeg(X.q[4])>>, X.s) ELSE X

\* ------------------------------------------------------------------ programs
\* expression trees (records):  [op |-> "in", k |-> n]  and  [op |-> name, a |-> e (, b |-> e)]
\* Sub-results are bound through set comprehensions ({f(x, y) : x \in {..}, y \in {..}}): TLC binds
\* quantified variables to VALUES, whereas operator arguments and LET definitions are lazy and may
\* be re-evaluated at every use, which makes a recursive evaluator exponential in the depth.
Only(S) == CHOOSE x \in S : TRUE
RECURSIVE Eval(_, _, _)
Eval(ty, e, env) ==
  CASE e.op = "in"     -> env[e.k]
    [] e.op = "mul"    -> Only({R!Mul(x, y)  : x \in {Eval(ty, e.a, env)}, y \in {Eval(ty, e.b, env)}})
    [] e.op = "inv"    -> Only({R!Inv(x)     : x \in {Eval(ty, e.a, env)}})
    [] e.op = "act3"   -> Only({R!Act3(x, y) : x \in {Eval(ty, e.a, env)}, y \in {Eval(ty, e.b, env)}})
    [] e.op = "act4"   -> Only({R!Act4(x, y) : x \in {Eval(ty, e.a, env)}, y \in {Eval(ty, e.b, env)}})
    [] e.op = "adj"    -> Only({R!Adj(x, y)  : x \in {Eval(ty, e.a, env)}, y \in {Eval(ty, e.b, env)}})
    [] e.op = "adjT"   -> Only({R!AdjT(x, y) : x \in {Eval(ty, e.a, env)}, y \in {Eval(ty, e.b, env)}})
    [] e.op = "retr"   -> Only({R!Retr(x, y) : x \in {Eval(ty, e.a, env)}, y \in {Eval(ty, e.b, env)}})
    [] e.op = "vadd"   -> Only({TLCEval([i \in DOMAIN x |-> UAdd(x[i], y[i])]) : x \in {Eval(ty, e.a, env)}, y \in {Eval(ty, e.b, env)}})
    [] e.op = "exp"    -> Only({R!ExpNearTrans(x) : x \in {Eval(ty, e.a, env)}})
    [] e.op = "log"    -> Only({R!LogNearTrans(NormQ(x)) : x \in {Eval(ty, e.a, env)}})
    [] e.op = "matrix" -> Only({FlatM(ty, x) : x \in {Eval(ty, e.a, env)}})
    [] e.op = "tensor" -> Only({EncA(ty, x)  : x \in {Eval(ty, e.a, env)}})        \* algebra value -> its coordinates

\* preconditions of the finite-series Exp / Log / Retr nodes (checked on the real parts)
IsTransA(A) == \A i \in 1..3 : Re(A.phi[i]) = DZero /\ Re(A.sigma) = DZero
IsTransG(X) == /\ \A i \in 1..3 : Re(X.q[i]) = DZero
               /\ Re(X.q[4]) \in {DOne, D(-1)} /\ Re(X.s) = DOne
RECURSIVE Defined(_, _, _)
Defined(ty, e, env) ==
  CASE e.op = "in" -> TRUE
    [] e.op \in {"exp"}  -> Defined(ty, e.a, env) /\ IsTransA(Eval(ty, e.a, env))
    [] e.op \in {"log"}  -> Defined(ty, e.a, env) /\ IsTransG(Eval(ty, e.a, env))
    [] e.op \in {"retr"} -> Defined(ty, e.a, env) /\ Defined(ty, e.b, env) /\ IsTransA(Eval(ty, e.b, env))
    [] e.op \in {"inv", "matrix", "tensor"} -> Defined(ty, e.a, env)
    [] OTHER -> Defined(ty, e.a, env) /\ Defined(ty, e.b, env)

\* inputs: kinds[k] in {"G", "A", "V"}; vals[k] tuple of dyadics in the tensor layout
InVal(ty, kind, x) == CASE kind = "G" -> DecG(ty, Lift(x)) [] kind = "A" -> DecA(ty, Lift(x)) [] OTHER -> Lift(x)
BaseEnv(ty, kinds, vals) == TLCEval([k \in DOMAIN vals |-> InVal(ty, kinds[k], vals[k])])
TanDim(ty, kind, x) == CASE kind = "G" -> ADim(ty) [] kind = "A" -> ADim(ty) [] OTHER -> Len(x)
PertEnv(ty, kinds, vals, k, i) ==
  TLCEval([j \in DOMAIN vals |->
     IF j # k THEN InVal(ty, kinds[j], vals[j])
     ELSE CASE kinds[k] = "G" -> PertG(ty, vals[k], i)
            [] kinds[k] = "A" -> DecA(ty, Seed(vals[k], i))
            [] OTHER          -> Seed(vals[k], i)])

\* the output must be a tuple of ring elements (Euclidean or algebra coordinates)
OutVec(ty, e, env) == LET v == Eval(ty, e, env) IN v
\* Jacobian of the program with respect to input k: rows = outputs, columns = tangent directions
Jacobian(ty, e, kinds, vals, k) ==
  LET n    == TanDim(ty, kinds[k], vals[k])
      cols == TLCEval([i \in 1..n |-> OutVec(ty, e, PertEnv(ty, kinds, vals, k, i))])
      m    == Len(cols[1])
  IN  TLCEval([r \in 1..m |-> [i \in 1..n |-> Du(cols[i][r])]])
Value(ty, e, kinds, vals) == LET v == OutVec(ty, e, BaseEnv(ty, kinds, vals)) IN TLCEval([r \in DOMAIN v |-> Re(v[r])])

\* left tangent of a dual group value:  dual part of Mat(Z) Mat(Z0)^-1 is a generator matrix
ConstPart(X) == R!Elem(<<U(Re(X.t[1])), U(Re(X.t[2])), U(Re(X.t[3]))>>,
                       <<U(Re(X.q[1])), U(Re(X.q[2])), U(Re(X.q[3])), U(Re(X.q[4]))>>, U(Re(X.s)))
LeftTangent(Z) ==      \* a record [tau, phi, sigma] of plain dyadics
  LET T == R!MatMul4(R!Mat4(Z), R!Mat4(R!Inv(ConstPart(Z)))) IN
  [tau |-> <<Du(T[1][4]), Du(T[2][4]), Du(T[3][4])>>,
   phi |-> <<Du(T[3][2]), Du(T[1][3]), Du(T[2][1])>>,
   sigma |-> Du(T[1][1])]
================================================================================
