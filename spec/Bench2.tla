---- MODULE Bench2 ----
EXTENDS LieJac, Json, IOUtils
Traces == JsonDeserialize(IOEnv.TRACE_FILE)
e == Traces[1].ev[1]
ASSUME PrintT(<<"defined", Defined(e.ty, e.prog, BaseEnv(e.ty, e.kinds, e.vals))>>)
ASSUME PrintT(<<"value", Value(e.ty, e.prog, e.kinds, e.vals)>>)
ASSUME PrintT(<<"jac1", Jacobian(e.ty, e.prog, e.kinds, e.vals, 1)>>)
VARIABLE x
Init == x = 0
Next == UNCHANGED x
Spec == Init /\ [][Next]_x
====
