------------------------------- MODULE Convert -------------------------------
(* Matrix <-> LieTensor and Euler <-> SO3 conversions of pypose                          *)
(* (pypose/lietensor/convert.py: mat2SO3, mat2SE3, mat2Sim3, mat2RxSO3, from_matrix,      *)
(*  euler2SO3; lietensor.py: LieTensor.matrix(), LieTensor.euler()).                      *)
(*                                                                                        *)
(* Everything is exact.  Numbers are dyadic rationals <<m, e>> = m 2^-e (module Dyadic),  *)
(* group elements are records [t, q, s] (module LieExact).  Inputs are drawn from         *)
(*   - the 48 quaternions of the binary octahedral group, written as INTEGER numerators n *)
(*     with |n|^2 in {1, 4, 2}:  +-e_i,  (+-1 +-1 +-1 +-1),  two entries +-1;  q = n/|n|.  *)
(*     |n|^2 in {1, 4} are the 24 Hurwitz units (12 tetrahedral rotations: identity, the   *)
(*     three axis half-turns with angle exactly pi, eight third-turns); all 48 give the    *)
(*     24 rotations of the cube (signed permutation matrices with det +1);                *)
(*   - integer translations, scales 2^k, the three layouts 3x3 / 3x4 / 4x4;               *)
(*   - perturbations  R + d E,  d = 10^-k,  handled as polynomials in d with integer      *)
(*     coefficient matrices (so no power of ten ever has to be represented);              *)
(*   - Euler angles that are multiples of a quarter turn.                                 *)
(*                                                                                        *)
(* Square roots: on the 12 tetrahedral rotations the selected t is 1 or 4, so 2 sqrt(t)   *)
(* is 2 or 4 and mat2SO3 is exact.  On the other cube rotations (t = 2) and for the half  *)
(* angles of odd quarter turns the quaternion has entries sqrt(2)/2; there the laws are   *)
(* stated on the numerators:  Rot is a homogeneous quadratic form, Rot(c q) = c^2 Rot(q). *)
(*                                                                                        *)
(* The caller picks a rotation (or an angle), then one action per public call, then       *)
(* Return; the properties (C11) are invariants of the state after the call.               *)
EXTENDS LieExact

CONSTANTS TCoords,     \* translation coordinates range over TCoords and their negatives (naturals)
          ScaleExps,   \* scales 2^k and 2^-k for k in ScaleExps (naturals)
          PertKs,      \* perturbation magnitudes 10^-k, k in PertKs
          TolEs,       \* rtol = atol = 10^-E for E in TolEs (the default is E = 5)
          EulerKMax    \* Euler angles: quarter turns -EulerKMax..EulerKMax

VARIABLES call,   \* "idle" | name of the public function that was called
          arg,    \* its argument record
          ret     \* what it returned

vars == <<call, arg, ret>>

Abs(a) == IF a < 0 THEN -a ELSE a
RECURSIVE Pow10(_)
Pow10(k) == IF k = 0 THEN 1 ELSE 10 * Pow10(k - 1)
DefaultTolE == 5      \* rtol = atol = 1e-5 (signature defaults of mat2SO3 .. from_matrix)

\* ================================================================ dyadic helpers
DV(n)      == TLCEval([i \in DOMAIN n |-> D(n[i])])                 \* integer vector -> dyadic vector
DM(A)      == TLCEval([i \in DOMAIN A |-> DV(A[i])])
DAbs(a)    == IF a[1] < 0 THEN DNeg(a) ELSE a
DLeq(a, b) == ~DLess(b, a)
\* a < 10^-E  for a dyadic a (exact; E <= 8 and lattice values keep this inside 32 bits)
DLessTol(a, E)      == a[1] * Pow10(E) < Pow2(a[2])

RECURSIVE ISqrtUp(_, _)
ISqrtUp(n, k) == IF k * k >= n THEN k ELSE ISqrtUp(n, k + 1)
ISqrt(n)      == ISqrtUp(n, 0)
IsSquareD(a)  == a[1] >= 0 /\ a[2] % 2 = 0 /\ ISqrt(a[1]) * ISqrt(a[1]) = a[1]
DSqrt(a)      == <<ISqrt(a[1]), a[2] \div 2>>                      \* only where IsSquareD(a)

Sub33(U) == << <<U[1][1], U[1][2], U[1][3]>>, <<U[2][1], U[2][2], U[2][3]>>, <<U[3][1], U[3][2], U[3][3]>> >>
Col4(U)  == <<U[1][4], U[2][4], U[3][4]>>
Det3(A)  == DAdd(DSub(DMul(A[1][1], DSub(DMul(A[2][2], A[3][3]), DMul(A[2][3], A[3][2]))),
                      DMul(A[1][2], DSub(DMul(A[2][1], A[3][3]), DMul(A[2][3], A[3][1])))),
                 DMul(A[1][3], DSub(DMul(A[2][1], A[3][2]), DMul(A[2][2], A[3][1]))))
Trace3(A) == DAdd(DAdd(A[1][1], A[2][2]), A[3][3])
\* adjugate (transposed cofactor matrix):  A adj(A) = det(A) I
Cof(A, i, j) == LET r == IF i = 1 THEN <<2, 3>> ELSE IF i = 2 THEN <<1, 3>> ELSE <<1, 2>>
                    c == IF j = 1 THEN <<2, 3>> ELSE IF j = 2 THEN <<1, 3>> ELSE <<1, 2>>
                    m == DSub(DMul(A[r[1]][c[1]], A[r[2]][c[2]]), DMul(A[r[1]][c[2]], A[r[2]][c[1]]))
                IN  IF (i + j) % 2 = 0 THEN m ELSE DNeg(m)
Adj3(A) == TLCEval([i \in 1..3 |-> [j \in 1..3 |-> Cof(A, j, i)]])

\* exact cube root of 2^(3j), j any integer (the scales of the lattice)
HasCubeRoot(d) == \/ (d[2] > 0 /\ d[1] = 1 /\ d[2] % 3 = 0)
                  \/ (d[2] = 0 /\ d[1] > 0 /\ Pow2(Log2(d[1])) = d[1] /\ Log2(d[1]) % 3 = 0)
CubeRootD(d)   == IF d[2] > 0 THEN <<1, d[2] \div 3>> ELSE <<Pow2(Log2(d[1]) \div 3), 0>>

\* ================================================================ the input lattice
Sg == {1, -1}
Quat1 == UNION { {<<a, 0, 0, 0>>, <<0, a, 0, 0>>, <<0, 0, a, 0>>, <<0, 0, 0, a>>} : a \in Sg }
Quat4 == { <<a, b, c, d>> : a \in Sg, b \in Sg, c \in Sg, d \in Sg }
Quat2 == UNION { {<<a, b, 0, 0>>, <<a, 0, b, 0>>, <<a, 0, 0, b>>, <<0, a, b, 0>>, <<0, a, 0, b>>, <<0, 0, a, b>>}
                 : a \in Sg, b \in Sg }
QuatTetra == Quat1 \cup Quat4          \* numerators of the 24 Hurwitz units
Quat48    == QuatTetra \cup Quat2      \* binary octahedral group
N2(n)     == n[1] * n[1] + n[2] * n[2] + n[3] * n[3] + n[4] * n[4]
\* rotation matrix of q = n/|n|:  Rot is quadratic, |n|^2 is 1, 2 or 4
RotN(n)   == MatScale(DInvPow2(D(N2(n))), Rot(DV(n)))
\* one numerator per rotation (n and -n give the same matrix): first non-zero entry positive
Canonical(n) == LET k == CHOOSE i \in 1..4 : n[i] # 0 /\ \A j \in 1..(i - 1) : n[j] = 0 IN n[k] > 0
UnitOf(n) == VScale(DInvPow2(D(ISqrt(N2(n)))), DV(n))               \* only for |n|^2 in {1, 4}

TetraRots == { RotN(n) : n \in QuatTetra }
CubeRots  == { RotN(n) : n \in Quat48 }
IsSignedPerm(R) == /\ \A i \in 1..3 : \A j \in 1..3 : R[i][j] \in {D(0), D(1), D(-1)}
                   /\ MatMul(R, Transpose(R)) = Ident(3)
HalfTurn(i) == [r \in 1..3 |-> [c \in 1..3 |-> IF r # c THEN DZero ELSE IF r = i THEN DOne ELSE D(-1)]]

SCoord == TCoords \cup { -a : a \in TCoords }
Translations == { <<D(a), D(b), D(c)>> : a \in SCoord, b \in SCoord, c \in SCoord } \cup {VZero(3)}
Scales  == { <<Pow2(k), 0>> : k \in ScaleExps } \cup { DNorm(<<1, k>>) : k \in ScaleExps }
Layouts == {"33", "34", "44"}
HasT(ty) == ty \in {"SE3", "Sim3"}
HasS(ty) == ty \in {"RxSO3", "Sim3"}

\* the matrix handed to mat2* in the given layout: [[A, t]], last row [0 0 0 1]
Embed(A, t, lay) ==
  IF lay = "33" THEN A
  ELSE LET top == TLCEval([i \in 1..3 |-> <<A[i][1], A[i][2], A[i][3], t[i]>>]) IN
       IF lay = "34" THEN top ELSE top \o << <<DZero, DZero, DZero, DOne>> >>

\* ================================================================ mat2SO3, as the code makes it
(* rmat_t = mat.mT;  mask_d2 = rmat_t[2,2] < atol;  mask_d0_d1 = rmat_t[0,0] > rmat_t[1,1];       *)
(* mask_d0_nd1 = rmat_t[0,0] < -rmat_t[1,1];  c0 = d2 d01, c1 = d2 ~d01, c2 = ~d2 d0n1,           *)
(* c3 = ~d2 ~d0n1;  q = sum_b q_b mask_b  (order w x y z);  q /= 2 sqrt(sum_b t_b mask_b);         *)
(* then index_select [1, 2, 3, 0]: wxyz -> xyzw.  The masked SUMS are transcribed literally, so    *)
(* overlapping or missing masks would show up in the value.                                        *)
MaskD2(R, atolE) == DLessTol(Transpose(R)[3][3], atolE)
MaskD0D1(R)      == DLess(R[2][2], R[1][1])
MaskD0ND1(R)     == DLess(R[1][1], DNeg(R[2][2]))
MasksOf(d2, d01, d0n1) == <<d2 /\ d01, d2 /\ ~d01, ~d2 /\ d0n1, ~d2 /\ ~d0n1>>
Masks(R, atolE)  == MasksOf(MaskD2(R, atolE), MaskD0D1(R), MaskD0ND1(R))
BranchesOf(c)    == { b \in 0..3 : c[b + 1] }
Branches(R, atolE) == BranchesOf(Masks(R, atolE))

BranchT(R) ==      \* t0 .. t3
  LET a == R[1][1]  b == R[2][2]  c == R[3][3] IN
  << DSub(DSub(DAdd(DOne, a), b), c), DSub(DAdd(DSub(DOne, a), b), c),
     DAdd(DSub(DSub(DOne, a), b), c), DAdd(DAdd(DAdd(DOne, a), b), c) >>
BranchQ(R) ==      \* q0 .. q3 in the order w, x, y, z, from rmat_t
  LET M == Transpose(R)  t == BranchT(R) IN
  << << DSub(M[2][3], M[3][2]), t[1], DAdd(M[1][2], M[2][1]), DAdd(M[3][1], M[1][3]) >>,
     << DSub(M[3][1], M[1][3]), DAdd(M[1][2], M[2][1]), t[2], DAdd(M[2][3], M[3][2]) >>,
     << DSub(M[1][2], M[2][1]), DAdd(M[3][1], M[1][3]), DAdd(M[2][3], M[3][2]), t[3] >>,
     << t[4], DSub(M[2][3], M[3][2]), DSub(M[3][1], M[1][3]), DSub(M[1][2], M[2][1]) >> >>
XYZW(q) == <<q[2], q[3], q[4], q[1]>>

Mat2SO3(R, atolE) ==
  LET c    == Masks(R, atolE)
      mv   == TLCEval([b \in 1..4 |-> IF c[b] THEN DOne ELSE DZero])
      qb   == BranchQ(R)
      tb   == BranchT(R)
      num  == VAdd(VAdd(VScale(mv[1], qb[1]), VScale(mv[2], qb[2])), VAdd(VScale(mv[3], qb[3]), VScale(mv[4], qb[4])))
      tt   == DAdd(DAdd(DMul(mv[1], tb[1]), DMul(mv[2], tb[2])), DAdd(DMul(mv[3], tb[3]), DMul(mv[4], tb[4])))
      den  == IF IsSquareD(tt) THEN DDouble(DSqrt(tt)) ELSE DZero
      ex   == DIsPos(den) /\ IsPow2D(den)
  IN  [masks |-> c, t |-> tt, num |-> XYZW(num), exact |-> ex,
       q |-> IF ex THEN XYZW(VScale(DInvPow2(den), num)) ELSE <<>>]

\* ---------------------------------------------------------------- the check=True validation
(* e0 = mat mat^T; allclose(e0, I, rtol, atol):  |e0 - I| <= atol + rtol |I|  elementwise;          *)
(* allclose(det(mat), 1):  |det - 1| <= atol + rtol.  Both must hold, else ValueError.              *)
\* |d| <= atol + rtol w  for w in {0, 1}, with rtol = 10^-rE, atol = 10^-aE (2 <= rE, aE <= 8)
WithinTol(d, w, rE, aE) ==
  LET m == MaxN(rE, aE) IN
  IF 2 * Abs(d[1]) >= Pow2(d[2]) THEN FALSE
  ELSE Abs(d[1]) * Pow10(m) <= (Pow10(m - aE) + w * Pow10(m - rE)) * Pow2(d[2])
OrthoOK(R, rE, aE) ==
  LET e0 == MatMul(R, Transpose(R)) IN
  \A i \in 1..3 : \A j \in 1..3 :
     IF i = j THEN WithinTol(DSub(e0[i][j], DOne), 1, rE, aE) ELSE WithinTol(e0[i][j], 0, rE, aE)
DetOK(R, rE, aE) == WithinTol(DSub(Det3(R), DOne), 1, rE, aE)
Legal(R, rE, aE) == OrthoOK(R, rE, aE) /\ DetOK(R, rE, aE)

\* ---------------------------------------------------------------- mat2SE3 / mat2Sim3 / mat2RxSO3 / from_matrix
(* s = det(U33)^(1/3) for the scaled types (NaN for det < 0, which then fails the validation);      *)
(* "not full rank" when s is within atol of 0;  R = U33 / s  goes through mat2SO3 with the same      *)
(* check / rtol / atol;  t = column 4 when there is one and the type has a translation, else 0.      *)
Raised == [raised |-> TRUE]
FromMatrix(ty, U, check, rE, aE) ==
  LET A   == Sub33(U)
      det == Det3(A)
  IN
  IF HasS(ty) /\ ~DIsPos(det) THEN Raised                               \* pow(det <= 0, 1/3): nan or 0
  ELSE IF HasS(ty) /\ ~HasCubeRoot(det) THEN [raised |-> FALSE, offlattice |-> TRUE]
  ELSE
    LET s  == IF HasS(ty) THEN CubeRootD(det) ELSE DOne
        R  == MatScale(DInvPow2(s), A)
        so == Mat2SO3(R, aE)
        t  == IF HasT(ty) /\ Len(U[1]) = 4 THEN Col4(U) ELSE VZero(3)
    IN  IF check /\ ~Legal(R, rE, aE) THEN Raised
        ELSE IF ~so.exact THEN [raised |-> FALSE, offlattice |-> TRUE]
        ELSE [raised |-> FALSE, offlattice |-> FALSE, X |-> Elem(t, so.q, s), so |-> so]

\* what the PROPERTY demands of a result Z for input U (independent of the branch formulas):
\* a valid element of the type whose matrix has the same 3x3 block, and the same translation
\* when both the layout and the type carry one
SameMatrix(ty, U, Z) ==
  /\ Valid(ty, Z)
  /\ Mat3(Z) = Sub33(U)
  /\ Z.t = (IF HasT(ty) /\ Len(U[1]) = 4 THEN Col4(U) ELSE VZero(3))
IsScaledRotation(ty, A) ==       \* the documented precondition, on the lattice
  /\ DIsPos(Det3(A))
  /\ IF HasS(ty) THEN HasCubeRoot(Det3(A)) /\ MatScale(DInvPow2(CubeRootD(Det3(A))), A) \in CubeRots
                 ELSE A \in CubeRots

\* ================================================================ perturbed inputs  R + d E,  d = 10^-k
(* (R + dE)(R + dE)^T - I = d A1 + d^2 A2,   det(R + dE) - 1 = d c1 + d^2 c2 + d^3 c3  with integer  *)
(* coefficients.  kinds: "scale"  E = R (M = (1+d) R);  "shear"  E = R e_i e_j^T (M = R (I + d e_i e_j^T), *)
(* det 1);  "entry"  E = e_i e_j^T (one entry moved).                                                *)
Unit33(i, j) == TLCEval([r \in 1..3 |-> [c \in 1..3 |-> IF r = i /\ c = j THEN DOne ELSE DZero]])
PertPatterns == {<<"scale", 0, 0>>}
                \cup ({ <<"shear", i, j>> : i \in 1..3, j \in 1..3 } \ { <<"shear", i, i>> : i \in 1..3 })
                \cup { <<"entry", i, j>> : i \in 1..3, j \in 1..3 }
PertE(R, p) == CASE p[1] = "scale" -> R
                 [] p[1] = "shear" -> MatMul(R, Unit33(p[2], p[3]))
                 [] p[1] = "entry" -> Unit33(p[2], p[3])
PertDev(R, p) ==
  LET E == PertE(R, p) IN
  [A1 |-> MatAdd(MatMul(R, Transpose(E)), MatMul(E, Transpose(R))),
   A2 |-> MatMul(E, Transpose(E)),
   c1 |-> Trace3(MatMul(Adj3(R), E)),
   c2 |-> Trace3(MatMul(Adj3(E), R)),
   c3 |-> Det3(E)]
\* the polynomial model evaluated at a dyadic d, against the matrix computed directly
PertAt(R, p, d) == MatAdd(R, MatScale(d, PertE(R, p)))
PolyModelOK(R, p, d) ==
  LET v == PertDev(R, p)  M == PertAt(R, p, d)  dd == DMul(d, d) IN
  /\ MatAdd(MatMul(M, Transpose(M)), MatScale(D(-1), Ident(3))) = MatAdd(MatScale(d, v.A1), MatScale(dd, v.A2))
  /\ DSub(Det3(M), DOne) = DAdd(DAdd(DMul(d, v.c1), DMul(dd, v.c2)), DMul(DMul(dd, d), v.c3))

(* |d a1 + d^2 a2 + d^3 a3| against T 10^-E at d = 10^-k (k >= 1), decided from the integers:          *)
(*   surely <= :  |..| <= d (|a1|+|a2|+|a3|) <= T 10^-E      when k >= E and |a1|+|a2|+|a3| <= T 10^(k-E) *)
(*   surely >  :  |..| >= d (|a1| - (|a2|+|a3|)/10) > T 10^-E  when k <= E-1 and                          *)
(*                (10|a1| - |a2| - |a3|) 10^(E-1-k) > T                                                  *)
Cap8(n) == IF n > 8 THEN 8 ELSE n
SurelyLeq(a1, a2, a3, T, k, E) == k >= E /\ Abs(a1) + Abs(a2) + Abs(a3) <= T * Pow10(Cap8(k - E))
SurelyGt(a1, a2, a3, T, k, E)  == k <= E - 1 /\ (10 * Abs(a1) - Abs(a2) - Abs(a3)) * Pow10(E - 1 - k) > T
\* the documented legality predicate (rtol = atol = 10^-E) on R + 10^-k E: surely legal / surely illegal
PertSurelyLegal(R, p, k, E) ==
  LET v == PertDev(R, p) IN
  /\ \A i \in 1..3 : \A j \in 1..3 : SurelyLeq(v.A1[i][j][1], v.A2[i][j][1], 0, IF i = j THEN 2 ELSE 1, k, E)
  /\ SurelyLeq(v.c1[1], v.c2[1], v.c3[1], 2, k, E)
PertSurelyIllegal(R, p, k, E) ==
  LET v == PertDev(R, p) IN
  \/ \E i \in 1..3 : \E j \in 1..3 : SurelyGt(v.A1[i][j][1], v.A2[i][j][1], 0, IF i = j THEN 2 ELSE 1, k, E)
  \/ SurelyGt(v.c1[1], v.c2[1], v.c3[1], 2, k, E)

(* The tolerance classes of the rejection clause: a perturbation of magnitude 10^-k of a rotation is    *)
(*   must-accept  when 10^-k <= 10^-(E+2)   (two decades below rtol = atol = 10^-E),                      *)
(*   must-reject  when 10^-k >= 10^-(E-2)   (two decades above),                                         *)
(*   unspecified  in between (which side of the threshold a borderline input falls on depends on the     *)
(*   pattern, the rotation and round-off; not judged).                                                   *)
(* For the scaled types a uniformly scaled rotation is a VALID input for every k.                        *)
CheckMargin == 2
PertClass(ty, kind, k, E) ==
  IF kind = "valid" THEN "accept"
  ELSE IF kind \in {"reflect", "scaled"} THEN (IF kind = "scaled" /\ HasS(ty) THEN "accept" ELSE "reject")
  ELSE IF kind = "scale" /\ HasS(ty) THEN "accept"
  ELSE IF k >= E + CheckMargin THEN "accept"
  ELSE IF k <= E - CheckMargin THEN "reject"
  ELSE "unspecified"
\* kinds of perturbation whose legality the model decides for the type (the scaled types renormalise by
\* det^(1/3); shears have det 1, so the renormalisation is the identity there)
PertKindsFor(ty) == IF HasS(ty) THEN {"shear"} ELSE {"scale", "shear", "entry"}

\* ================================================================ Euler angles (quarter turns)
CosQ(k) == <<1, 0, -1, 0>>[(k % 4) + 1]
SinQ(k) == <<0, 1, 0, -1>>[(k % 4) + 1]
RxQ(k) == DM(<< <<1, 0, 0>>, <<0, CosQ(k), -SinQ(k)>>, <<0, SinQ(k), CosQ(k)>> >>)
RyQ(k) == DM(<< <<CosQ(k), 0, SinQ(k)>>, <<0, 1, 0>>, <<-SinQ(k), 0, CosQ(k)>> >>)
RzQ(k) == DM(<< <<CosQ(k), -SinQ(k), 0>>, <<SinQ(k), CosQ(k), 0>>, <<0, 0, 1>> >>)
\* the documented meaning of (roll, pitch, yaw): rotate about x, then y, then z
EulerMat(r, p, y) == MatMul(RzQ(y), MatMul(RyQ(p), RxQ(r)))

\* half of k quarter turns is k eighth turns: (cos, sin)(k 45 deg), times sqrt(2) when k is odd
HalfC(k) == <<1, 1, 0, -1, -1, -1, 0, 1>>[(k % 8) + 1]
HalfS(k) == <<0, 1, 1, 1, 0, -1, -1, -1>>[(k % 8) + 1]
HalfN(k) == IF k % 2 = 0 THEN 1 ELSE 2
\* euler2SO3: the quaternion formula of the code on the numerators
Euler2Num(r, p, y) ==
  LET cy == HalfC(y)  sy == HalfS(y)  cp == HalfC(p)  sp == HalfS(p)  cr == HalfC(r)  sr == HalfS(r) IN
  << sr * cp * cy - cr * sp * sy,  cr * sp * cy + sr * cp * sy,
     cr * cp * sy - sr * sp * cy,  cr * cp * cy + sr * sp * sy >>
Euler2N2(r, p, y) == HalfN(r) * HalfN(p) * HalfN(y)

\* LieTensor.euler on the numerators of a quaternion (t0, t1, t3, t4 scale with |n|^2; t2 is normalised
\* by the code).  atan2 / asin are taken on the lattice: quarter-turn index, 99 = off the lattice.
Atan2Q(s, c) == IF s = 0 /\ c > 0 THEN 0 ELSE IF s > 0 /\ c = 0 THEN 1
                ELSE IF s = 0 /\ c < 0 THEN 2 ELSE IF s < 0 /\ c = 0 THEN -1 ELSE 99
AsinQ(s, n)  == IF s = 0 THEN 0 ELSE IF s = n THEN 1 ELSE IF s = -n THEN -1 ELSE 99
GimbalEps == <<2, 10000>>          \* eps = 2e-4, default of euler()
EulerOf(n) ==
  LET x == n[1]  y == n[2]  z == n[3]  w == n[4]
      t0 == 2 * (w * x + y * z)   t1 == (w * w + z * z) - (x * x + y * y)
      t2 == 2 * (w * y - z * x)   nn == N2(n)
      t3 == 2 * (w * z + x * y)   t4 == (w * w + x * x) - (y * y + z * z)
      flag == Abs(t2) * GimbalEps[2] < nn * (GimbalEps[2] - GimbalEps[1])     \* |t2| < 1 - eps
  IN  [regular |-> flag,
       roll  |-> IF flag THEN Atan2Q(t0, t1) ELSE 0,
       pitch |-> AsinQ(t2, nn),
       yaw   |-> IF flag THEN Atan2Q(t3, t4) ELSE 99]      \* yaw inside the gimbal band: not specified
PrincipalQ(e) == e.roll \in -1..2 /\ e.yaw \in -1..2 /\ e.pitch \in -1..1     \* (-pi, pi], [-pi/2, pi/2]

\* ================================================================ the state machine
Init == call = "idle" /\ arg = <<>> /\ ret = <<>>

\* the caller chooses the rotation (resp. the roll angle) first; this only splits the enumeration so that
\* TLC explores it on all workers
PickRotation == \E n \in Quat48 : call = "idle" /\ call' = "pick" /\ arg' = [n |-> n] /\ ret' = <<>>
PickAngle    == \E r \in -EulerKMax..EulerKMax : call = "idle" /\ call' = "pickangle" /\ arg' = [r |-> r] /\ ret' = <<>>

CallMat2SO3 ==               \* mat2SO3(R), check = True, default tolerances
  /\ call = "pick" /\ call' = "mat2SO3"
  /\ LET n == arg.n IN
     /\ arg' = [R |-> RotN(n), tetra |-> n \in QuatTetra]
     /\ ret' = IF Legal(RotN(n), DefaultTolE, DefaultTolE) THEN Mat2SO3(RotN(n), DefaultTolE) ELSE Raised

CallFromMatrix ==            \* from_matrix(U, ty) / mat2<ty>(U) on a valid input of every layout
  \E ty \in Types, t \in Translations, s \in Scales, lay \in Layouts :
    /\ call = "pick" /\ arg.n \in QuatTetra /\ call' = "from_matrix"
    /\ LET sc == IF HasS(ty) THEN s ELSE DOne
           U  == Embed(MatScale(sc, RotN(arg.n)), t, lay) IN
       /\ arg' = [ty |-> ty, U |-> U, lay |-> lay, s |-> sc, kind |-> "valid"]
       /\ ret' = FromMatrix(ty, U, TRUE, DefaultTolE, DefaultTolE)

CallFromMatrixInvalid ==     \* a scaled rotation handed to an unscaled type, a reflection handed to any type
  \E ty \in Types, s \in Scales, lay \in Layouts, kind \in {"scaled", "reflect"}, E \in TolEs :
    /\ call = "pick" /\ Canonical(arg.n) /\ call' = "from_matrix"
    /\ s # DOne
    /\ LET R == RotN(arg.n)
           A == IF kind = "scaled" THEN MatScale(s, R) ELSE MatScale(DNeg(IF HasS(ty) THEN s ELSE DOne), R)
           U == Embed(A, VZero(3), lay) IN
       /\ arg' = [ty |-> ty, U |-> U, lay |-> lay, s |-> s, kind |-> kind]
       /\ ret' = FromMatrix(ty, U, TRUE, E, E)

CallCheckPerturbed ==        \* mat2SO3(R + 10^-k E, check = True, rtol = atol = 10^-E)
  \E p \in PertPatterns, k \in PertKs, E \in TolEs :
    /\ call = "pick" /\ Canonical(arg.n) /\ call' = "check"
    /\ LET R == RotN(arg.n) IN
       /\ arg' = [R |-> R, p |-> p, k |-> k, E |-> E]
       /\ ret' = [legal   |-> PertSurelyLegal(R, p, k, E),
                  illegal |-> PertSurelyIllegal(R, p, k, E)]

CallEuler2SO3 ==             \* euler2SO3([roll, pitch, yaw]) at quarter-turn multiples
  \E p \in -EulerKMax..EulerKMax, y \in -EulerKMax..EulerKMax :
    /\ call = "pickangle" /\ call' = "euler2SO3"
    /\ arg' = [r |-> arg.r, p |-> p, y |-> y]
    /\ ret' = [num |-> Euler2Num(arg.r, p, y), n2 |-> Euler2N2(arg.r, p, y)]

CallEuler ==                 \* X.euler() for every quaternion of the binary octahedral group
  /\ call = "pick" /\ call' = "euler"
  /\ arg' = [n |-> arg.n]
  /\ ret' = EulerOf(arg.n)

Return == call \notin {"idle", "pick", "pickangle"} /\ call' = "idle" /\ arg' = <<>> /\ ret' = <<>>

Next == PickRotation \/ PickAngle \/ CallMat2SO3 \/ CallFromMatrix \/ CallFromMatrixInvalid
        \/ CallCheckPerturbed \/ CallEuler2SO3 \/ CallEuler \/ Return
Spec == Init /\ [][Next]_vars

\* ================================================================ facts about the lattice (checked once)
ASSUME Cardinality(Quat48) = 48 /\ Cardinality(QuatTetra) = 24
ASSUME { UnitOf(n) : n \in QuatTetra } = Units24
ASSUME { RotN(n) : n \in { m \in Quat48 : Canonical(m) } } = CubeRots
ASSUME Cardinality(TetraRots) = 12 /\ Cardinality(CubeRots) = 24 /\ TetraRots \subseteq CubeRots
ASSUME \A R \in CubeRots : IsSignedPerm(R) /\ Det3(R) = DOne
ASSUME Ident(3) \in TetraRots /\ \A i \in 1..3 : HalfTurn(i) \in TetraRots        \* angle exactly pi
\* (a) all four branches occur among the 12 tetrahedral rotations, and on the half-turns three of them
ASSUME UNION { Branches(R, DefaultTolE) : R \in TetraRots } = 0..3
ASSUME UNION { Branches(HalfTurn(i), DefaultTolE) : i \in 1..3 } = {0, 1, 2}
\* the combination table of the masks is total and exclusive for every value of the three comparisons
ASSUME \A d2 \in BOOLEAN, d01 \in BOOLEAN, d0n1 \in BOOLEAN : Cardinality(BranchesOf(MasksOf(d2, d01, d0n1))) = 1
\* (d) every cube rotation is an Euler matrix, quarter turns compose as integer matrices
ASSUME { EulerMat(r, p, y) : r \in 0..3, p \in 0..3, y \in 0..3 } = CubeRots

\* ================================================================ invariants
TypeOK == call \in {"idle", "pick", "pickangle", "mat2SO3", "from_matrix", "check", "euler2SO3", "euler"}

\* (a) branch selection
BranchTotalExclusive ==
  call = "mat2SO3" => ~("raised" \in DOMAIN ret) /\ Cardinality(BranchesOf(ret.masks)) = 1
\* the selected t is bounded away from 0 (the division is safe): t >= 1 on rotations
BranchWellConditioned == call = "mat2SO3" => DLeq(DOne, ret.t)
\* exact on the tetrahedral rotations: t in {1, 4}, the result is a Hurwitz unit with the same matrix
RoundTripTetra ==
  (call = "mat2SO3" /\ arg.tetra) =>
     /\ ret.t \in {D(1), D(4)} /\ ret.exact
     /\ ret.q \in Units24
     /\ Rot(ret.q) = arg.R
\* all 24 cube rotations, on the numerators: |num|^2 = 4 t and Rot(num) = 4 t R, i.e. q = num / (2 sqrt t)
\* is a unit quaternion with matrix R
RoundTripCube ==
  call = "mat2SO3" =>
     /\ Dot(ret.num, ret.num) = DMul(D(4), ret.t)
     /\ Rot(ret.num) = MatScale(DMul(D(4), ret.t), arg.R)
     /\ (~arg.tetra => ret.t \in {D(2), D(4)})

\* (b) + layouts: valid inputs are accepted, the result has the same matrix, a unit quaternion, the same
\* scale (det = s^3), the translation of the layout
ValidAccepted == (call = "from_matrix" /\ arg.kind = "valid") => ~ret.raised /\ ~ret.offlattice
SameMatrixOut == (call = "from_matrix" /\ arg.kind = "valid") => SameMatrix(arg.ty, arg.U, ret.X)
ScaleIsCubeRoot ==
  (call = "from_matrix" /\ arg.kind = "valid") =>
     /\ ret.X.s = arg.s
     /\ Det3(Sub33(arg.U)) = DMul(arg.s, DMul(arg.s, arg.s))
     /\ QNorm2(ret.X.q) = DOne
\* (c) rejection on the lattice: exactly the inputs that are not (scaled) rotations raise
InvalidRaises ==
  (call = "from_matrix" /\ arg.kind # "valid") =>
     (ret.raised <=> ~IsScaledRotation(arg.ty, Sub33(arg.U)))
InvalidClassAgrees ==
  (call = "from_matrix" /\ arg.kind # "valid") =>
     (ret.raised <=> PertClass(arg.ty, arg.kind, 0, DefaultTolE) = "reject")

\* (c) tolerance classes: the documented predicate, decided on the polynomial model, agrees with the classes
PertModelExact ==
  call = "check" => \A d \in {D(1), D(2), D(-1), DHalf} : PolyModelOK(arg.R, arg.p, d)
CheckClassesSound ==
  call = "check" =>
     LET cl == PertClass("SO3", arg.p[1], arg.k, arg.E) IN
     /\ (cl = "accept" => ret.legal)
     /\ (cl = "reject" => ret.illegal)
     /\ ~(ret.legal /\ ret.illegal)
ShearKeepsDet ==          \* so the scaled types see the same rotation block after dividing by det^(1/3)
  (call = "check" /\ arg.p[1] = "shear") =>
     LET v == PertDev(arg.R, arg.p) IN v.c1 = DZero /\ v.c2 = DZero /\ v.c3 = DZero

\* (d) Euler
EulerComposition ==
  call = "euler2SO3" =>
     /\ N2(ret.num) = ret.n2
     /\ Rot(DV(ret.num)) = MatScale(D(ret.n2), EulerMat(arg.r, arg.p, arg.y))
EulerInverse ==
  call = "euler" =>
     LET R == RotN(arg.n) IN
     /\ (ret.regular <=> R[3][1] = DZero)               \* outside the gimbal band: sin(pitch) = -R[3][1] = 0 here
     /\ ret.pitch \in -1..1
     /\ (ret.regular => PrincipalQ(ret) /\ EulerMat(ret.roll, ret.pitch, ret.yaw) = R)
EulerRoundTrip ==         \* euler2SO3(X.euler()) is the same rotation as X
  (call = "euler" /\ ret.regular) =>
     LET m == Euler2Num(ret.roll, ret.pitch, ret.yaw) IN
     MatScale(D(N2(arg.n)), Rot(DV(m))) = MatScale(D(N2(m)), Rot(DV(arg.n)))
EulerOfEuler2 ==          \* X = euler2SO3(angles), pitch a multiple of a half turn: euler() returns the principal triple
  (call = "euler2SO3" /\ arg.p % 2 = 0) =>
     LET e == EulerOf(ret.num) IN
     e.regular /\ PrincipalQ(e) /\ EulerMat(e.roll, e.pitch, e.yaw) = EulerMat(arg.r, arg.p, arg.y)
================================================================================
