------------------------------ MODULE LieRegimesTrace ------------------------------
(* Judges accuracy measurements of Exp (C01) and Log (C02) taken per magnitude cell.      *)
(* The harness evaluates the defining matrix exponential / principal logarithm in 60-digit *)
(* arithmetic and logs the implementation's errors as integers in units of the dtype's      *)
(* eps (capped at 10^9), plus the cell's magnitude classes.  Tolerances, the regime          *)
(* model and the verdict are this specification's (constants of LieRegimes).                 *)
EXTENDS LieRegimes, Json, IOUtils

Traces == JsonDeserialize(IOEnv.TRACE_FILE)

RECURSIVE Log10Ceil(_)
Log10Ceil(n) == IF n <= 1 THEN 0 ELSE 1 + Log10Ceil((n + 9) \div 10)
ErrE(dtp, err) == EpsE(dtp) + Log10Ceil(err)          \* decimal exponent of a logged error

\* the implementation must be no worse than the error model (+ Slack decades): this is what notices
\* a changed threshold or coefficient whose damage stays below the property's tolerance elsewhere
Slack == 3

ExpClause(e) ==
  CASE ~e.finite                                   -> "nonfinite"
    [] e.err_unit > TolUnit(e.dt)                  -> "unit_quaternion"
    [] e.err_rot > TolRot(e.dt)                    -> "rotation_scale_block"
    [] e.zero_in /\ ~e.identity_out                -> "exp_zero_not_identity"
    [] e.err_trans > TolTrans(e.dt)                -> "translation_block"
    [] e.err_trans > 0 /\ ErrE(e.dt, e.err_trans) > PredTransE(e.ty, e.dt, e.eT, e.eS, e.gT, e.gS, e.sT, e.sS) + Slack -> "worse_than_model"
    [] OTHER -> "ok"

\* C02.  awayPi: the rotation angle of X is at most pi - 1e-6 (the relations are only required there)
LogClause(e) ==
  CASE ~e.finite                                   -> "nonfinite"
    [] e.norm_excess > 4                           -> "log_rotation_norm_above_pi"      \* (|phi| - pi)/(pi eps), clipped at 0
    [] e.rt_rot > TolRot(e.dt)                     -> "exp_log_roundtrip_rotation"
    [] e.rt_trans > TolTrans(e.dt)                 -> "exp_log_roundtrip_translation"
    [] e.identity_in /\ ~e.zero_out                -> "log_identity_not_zero"
    [] e.awayPi /\ e.neg_same > TolRot(e.dt)       -> "log_of_negated_quaternion"
    [] e.awayPi /\ e.inv_neg_rot > TolRot(e.dt)    -> "log_of_inverse_rotation"
    [] e.awayPi /\ e.inv_neg_trans > TolTrans(e.dt) -> "log_of_inverse_translation"
    [] OTHER -> "ok"

\* Log(Exp(x)) = x for rotation angle below pi
LogExpClause(e) ==
  CASE ~e.finite                                   -> "nonfinite"
    [] e.err_rot > TolRot(e.dt)                    -> "log_exp_rotation"
    [] e.err_trans > TolTrans(e.dt)                -> "log_exp_translation"
    [] OTHER -> "ok"

Clause(e) == CASE e.chk = "exp" -> ExpClause(e)
               [] e.chk = "log" -> LogClause(e)
               [] e.chk = "logexp" -> LogExpClause(e)
               [] OTHER -> "unknown_check"

\* stateless events: verdicts at constant level (see LieJacTrace for why)
RECURSIVE FirstFail(_, _)
FirstFail(T, i) == IF i > Len(T.ev) THEN "ok"
                   ELSE LET c == Clause(T.ev[i]) IN
                        IF c # "ok" THEN c \o "@" \o ToString(i) ELSE FirstFail(T, i + 1)
ASSUME \A t \in 1..Len(Traces) : PrintT(<<"VERDICT", t, FirstFail(Traces[t], 1)>>)
================================================================================
