\* as LQRTime_code for LTV only: the counterexample needs a second solve (or a user call) on the same object
\* which a stage evaluates the dynamics at a stale time index.  Expected to VIOLATE StageUsesOwnIndex.
SPECIFICATION Spec
CONSTANTS
  Classes = {"LTV"}
  Horizons = {3}
  MaxSolves = 3
  MaxUser = 0
  TimeVals = {0, 2, 5}
  Deviation = TRUE
INVARIANT TypeOK
INVARIANT StageUsesOwnIndex
CHECK_DEADLOCK FALSE
