\* all 341 x 341 pairs of lshapes of rank <= 4 with extents {0,1,2,3} (116 281 states), every law
SPECIFICATION Spec
CONSTANTS
  MaxRank = 4
  Extents = {0, 1, 2, 3}
  Triples = FALSE
INVARIANT DefinedIffTorch
INVARIANT Symmetric
INVARIANT Idempotent
INVARIANT UnitEmpty
INVARIANT Closed
INVARIANT Absorbs
INVARIANT LeastExpansion
INVARIANT ZeroExtent
INVARIANT ScalarBatch
INVARIANT IndexMapTotal
INVARIANT IndexMapBalanced
INVARIANT IndexMapIdentity
INVARIANT FlatBijective
INVARIANT SchemeIsIndexMap
INVARIANT TypeTable
CHECK_DEADLOCK FALSE
