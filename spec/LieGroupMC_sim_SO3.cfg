SPECIFICATION Spec
CONSTANTS
  Ty = "SO3"
  TBox = 100000
  SBox = 12
  TDen = 20
  Deep = FALSE
CONSTRAINT InBox
CHECK_DEADLOCK FALSE
