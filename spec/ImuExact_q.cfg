\* quick: all streams of 1..3 frames over box "q" (2 dt x 2 acc x {known third-turn, integrated}), 2 initial rotations,
\* gravity 0 / 8, every chunking
SPECIFICATION Spec
CONSTANTS
  XF = {1, 2, 3}
  Box = "q"
INVARIANT ChunkedIsRecursion
INVARIANT RowsAreRecursion
INVARIANT UnitRot
CHECK_DEADLOCK FALSE
