------------------------------ MODULE KalmanTrace ------------------------------
(* Judges executions recorded from the real pypose EKF / UKF / PF objects (C13).        *)
(*                                                                                      *)
(* A trace is [cfg |-> [kind |-> ...], ev |-> <<event, ...>>].  Kinds and events:       *)
(*   "steps"    a run of filter steps on ONE filter object per filter class.  Events    *)
(*              act = "ekf" | "ukf":  inst (the integer instance of Kalman.tla, with    *)
(*              the measurement y), exp (the fractions the harness compared with, as    *)
(*              read from the KalmanGen table), ux / uP (integer distances, in units of *)
(*              eps * data scale, of the returned mean / covariance to exp), sym, neg   *)
(*              (asymmetry and negative-eigenvalue measures of the returned covariance  *)
(*              in the same units), finite.  TLC recomputes the expected posterior from *)
(*              inst with the design operators (EKFStep / UKFStep with the factors as   *)
(*              data), checks that exp is that value, that the distances are within     *)
(*              tolerance, and that every step after the first starts from the prior    *)
(*              re-seeded from the previous posterior (Kalman!ReseedInst).              *)
(*   "cov"      random SPD data over 6 orders of magnitude, dimensions 1..6: events      *)
(*              act = "cov" with filter, k, sym, neg (units of eps * scale of P-), and  *)
(*              ref (distance to a 60-digit evaluation of the Kalman recursion; -1 when *)
(*              not applicable: nonlinear system / PF).                                 *)
(*   "pf"       act = "pf": inst, exp (posterior mean of the documented particle model, *)
(*              fractions), dev (|estimate - exp| in thousandths of the Monte-Carlo     *)
(*              standard deviation of the estimator, per component), N.                 *)
(*   "resample" act = "resample": integer weights c (q_i = c_i / tot), random numbers   *)
(*              r_j = rn_j / rd, returned indices idx (0-based).                        *)
(*   (cov events carry judge_cov: the covariance clauses apply to EKF, PF and UKF with k >= 0) *)
(* Verdicts are total: every event is consumed, the first failing clause is named.      *)
EXTENDS Integers, Sequences, FiniteSets, TLC, Json, IOUtils

Traces == JsonDeserialize(IOEnv.TRACE_FILE)

K == INSTANCE Kalman WITH
       Variant <- "doc", Dims <- {}, NKs <- {}, NA <- 0, DL <- {}, NL <- 0, DL2 <- {}, NL2 <- 0,
       NC <- 0, NRs <- {}, MeanFam <- FALSE, NonLin <- FALSE, MaxSteps <- 0, NKm <- {}, Thin <- 1, Thin2 <- 1, ThinM <- 1,
       inst <- <<>>, ph <- "none", est <- <<>>, pred <- <<>>, out <- <<>>

\* ---- tolerances (fixed before looking at results; >= 4x what the repaired tree measures)
UlpTol  == 65536        \* mean / covariance vs exact fractions, units of eps * data scale (lattice instances)
SymTol  == 4096         \* |P - P'| in units of eps * scale (lattice: data scale; random data: |P-| cond S)
NegTol  == 4096         \* negative part of the spectrum of P, same units
RefTol  == 4096         \* distance to the 60-digit Kalman recursion on random data, units of eps * scale * cond S
Band    == 7000         \* PF: |estimate - mean| <= 7 sigma (the statement asks for a band of at least 6 sigma)

VARIABLES tid, l, st, verdict
\* st = [step |-> number of the last step seen, inst |-> its instance, post |-> its exact posterior]

AllLe(s, b) == \A i \in DOMAIN s : s[i] <= b /\ s[i] >= 0
AllLe2(m, b) == \A i \in DOMAIN m : AllLe(m[i], b)

Expected(e) ==
  LET I == e.inst
      s == K!SysOf(I)
      p == K!PriorOf(I)
      u == K!QV(I.u)
      y == K!QV(e.y) IN
  IF e.act = "ekf" THEN K!EKFStep(s, p.x, p.P, u, y)
  ELSE K!UKFStep(s, p.x, p.P, u, y, I.nk, K!QM(K!IL1(I)), K!QM(K!IL2(I)))

SameSystem(I, J) ==
  /\ I.A = J.A /\ I.B = J.B /\ I.C = J.C /\ I.D = J.D /\ I.c1 = J.c1 /\ I.c2 = J.c2
  /\ I.fa = J.fa /\ I.ga = J.ga /\ I.R = J.R /\ I.nk = J.nk

CovJudged(e) == e.act = "ekf" \/ e.inst.nk >= e.inst.n
StepClause(s, e, x) ==
  CASE ~e.finite                                   -> "nonfinite"
    [] ~K!ValidInst(e.inst)                        -> "instance_outside_lattice"
    [] e.act = "ukf" /\ ~K!IsLinear(K!SysOf(e.inst)) -> "ukf_on_nonlinear_not_specified"
    [] e.act = "ukf" /\ ~x.factors                 -> "factor_data"
    [] e.exp.x # x.x \/ e.exp.P # x.P              -> "table_value"
    [] e.inst.step > 1 /\ s.step = e.inst.step - 1 /\
         (LET r == K!ReseedInst(s.inst, s.post) IN
            ~(SameSystem(r, e.inst) /\ r.x = e.inst.x /\ r.Lp = e.inst.Lp /\ r.L2p = e.inst.L2p
              /\ r.u = e.inst.u /\ e.y \in r.ys))  -> "reseed"
    [] e.inst.step > 1 /\ s.step \notin {e.inst.step - 1, e.inst.step} -> "step_order"
    [] ~AllLe(e.ux, UlpTol)                        -> "mean"
    [] ~AllLe2(e.uP, UlpTol)                       -> "cov"
    \* covariance validity is stated for EKF always and for UKF with a non-negative centre weight (k >= 0)
    [] CovJudged(e) /\ (e.sym > SymTol \/ e.sym < 0) -> "cov_symmetric"
    [] CovJudged(e) /\ (e.neg > NegTol \/ e.neg < 0) -> "cov_psd"
    [] OTHER -> "ok"

CovClause(e) ==
  CASE ~e.finite                                   -> "nonfinite"
    [] e.judge_cov /\ (e.sym > SymTol \/ e.sym < 0) -> "cov_symmetric"
    [] e.judge_cov /\ (e.neg > NegTol \/ e.neg < 0) -> "cov_psd"
    [] e.ref > RefTol \/ e.ref < -1                -> "kalman_reference"
    [] OTHER -> "ok"

PFClause(e) ==
  LET I == e.inst
      s == K!SysOf(I)
      p == K!PriorOf(I)
      m == K!PFModel(s, p.x, p.P, K!QV(I.u), K!QV(e.y)) IN
  CASE ~e.finite                                   -> "nonfinite"
    [] ~K!IsLinear(s)                              -> "pf_model_needs_linear_system"
    [] e.exp # m.x                                 -> "table_value"
    [] ~AllLe(e.dev, Band)                         -> "pf_mean_band"
    [] OTHER -> "ok"

ResampleClause(e) ==
  LET tot == K!CumTo(e.c, Len(e.c)) IN
  CASE tot # e.tot \/ Len(e.idx) # Len(e.rn)       -> "resample_shape"
    [] \E j \in DOMAIN e.rn : ~(0 < e.rn[j] /\ e.rn[j] < e.rd) -> "resample_r_range"
    \* the resampled population is a MULTISET: particle i is drawn as often as uniforms fall into its cumulative-weight
    \* cell; the order in which the draws are laid out is not part of the particle model
    [] \E i \in 0..Len(e.c) : Cardinality({j \in DOMAIN e.rn : e.idx[j] + 1 = i})
                                # Cardinality({j \in DOMAIN e.rn : K!Idx(e.c, tot, e.rn[j], e.rd) = i}) -> "resample_index"
    [] \E j \in DOMAIN e.idx : e.idx[j] + 1 \notin 1..Len(e.c) -> "resample_index"
    [] OTHER -> "ok"

Clause(cfg, s, e, x) ==
  CASE e.act \in {"ekf", "ukf"} -> StepClause(s, e, x)
    [] e.act = "cov"            -> CovClause(e)
    [] e.act = "pf"             -> PFClause(e)
    [] e.act = "resample"       -> ResampleClause(e)
    [] e.act = "raise"          -> "raised"
    [] OTHER                    -> "unknown_event"

\* resynchronise on the logged instance and the spec's own posterior for it
IsStep(e) == e.act \in {"ekf", "ukf"} /\ K!ValidInst(e.inst)
NextSt(s, e, x) ==
  IF IsStep(e) THEN [step |-> e.inst.step, inst |-> e.inst, post |-> [x |-> x.x, P |-> x.P]] ELSE s

Init == tid \in 1..Len(Traces) /\ l = 1 /\ st = [step |-> 0, inst |-> <<>>, post |-> <<>>] /\ verdict = "ok"

Next ==
  LET T == Traces[tid] IN
  /\ l <= Len(T.ev)
  /\ LET e == T.ev[l]
         x == IF IsStep(e) THEN Expected(e) ELSE <<>>      \* the spec's own posterior, computed once
         cl == Clause(T.cfg, st, e, x) IN
       /\ verdict' = IF verdict = "ok" /\ cl # "ok" THEN cl \o "@" \o ToString(l) ELSE verdict
       /\ st' = NextSt(st, e, x)
       /\ (l = Len(T.ev)) => PrintT(<<"VERDICT", tid, verdict'>>)
  /\ l' = l + 1 /\ UNCHANGED tid

Spec == Init /\ [][Next]_<<tid, l, st, verdict>>
================================================================================
