SPECIFICATION Spec
CONSTANTS
  TMax = 5
  N1Max = 2
  N2Max = 2
  DSet = {1,2}
  PairN = {1,2,3,4,5}
  PairD = {1,2}
  StepSet = {1,2}
  DistNMax = 4
  EMax = 2
  ENMax = 3
PROPERTY Terminates
CHECK_DEADLOCK FALSE
