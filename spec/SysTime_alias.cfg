\* demonstration: the named deviation AliasRefTime (reference time of set_refpoint(t=None) is the live counter)
\* violates LinAtRef -- TLC prints the shortest call sequence.  Not part of the verdict.
SPECIFICATION Spec
CONSTANTS
  Classes = {"NLS"}
  TimeVals = {0, 3}
  MaxLen = 4
  KeepHist = TRUE
  Rich = FALSE
  ProgIds = {1}
  AliasRefTime = TRUE
CONSTRAINT Bound
INVARIANT LinAtRef
CHECK_DEADLOCK FALSE
