\* every instance of the "twoL" family (integer data, horizons 1..3, LTI and LTV sequences): the value recursion's
\* solution is feasible, its cost is the sum, has zero gradient and no better lattice neighbour
SPECIFICATION Spec
CONSTANT Family = "twoL"
INVARIANT InstancesWellFormed
INVARIANT SolutionFeasible
INVARIANT ZeroGradient
INVARIANT NoBetterNeighbour
CHECK_DEADLOCK FALSE
