\* ls3
SPECIFICATION Spec
CONSTANTS
  Mode = "ls"
  Dims = {}
  EMax = 0
  BMax = 1
  BUnit = FALSE
  LDims = {11, 12, 13, 21, 22, 23, 31, 32, 33}
  LMax = 1
  UseX0 = FALSE
  X0Max = 0
  PrecMax = 0
  PrecFull = FALSE
  TolD = 1
INVARIANT PinvNormalEq
INVARIANT PinvRowSpace
INVARIANT PinvIsLeastSquares
INVARIANT PinvIsMinNorm
INVARIANT NullBoxSpans
INVARIANT FullRankUnique
INVARIANT SquareAgrees
CHECK_DEADLOCK FALSE
