--------------------------------- MODULE ImuGen ---------------------------------
(* spec -> code: tabulates EVERY chunking (composition) of every stream length F in GF,  *)
(* for both values of the constructor's reset flag, with what the design module Imu      *)
(* prescribes for each call: where the call starts, the length of the scan it needs       *)
(* (len+1), which frames are folded into its rows (Origin+1 .. k0+i), the admissible      *)
(* input ranks for batch 1 and for batch > 1, and the frames folded into the buffers      *)
(* afterwards.  The driver replays every row on a real integrator.                        *)
EXTENDS Naturals, Sequences, FiniteSets, TLC, Json, IOUtils

CONSTANTS GF

I == INSTANCE Imu WITH MaxF <- 0, MaxB <- 0, RotLeft <- FALSE, CovLeft <- FALSE, InitOnLeft <- TRUE,
       GravPost <- TRUE, KeepHist <- FALSE,
       F <- 0, B <- 0, reset <- FALSE, known <- FALSE, k <- 0, buf <- <<>>, out <- <<>>, pc <- "idle",
       call <- [len |-> 0, rank |-> 3], hist <- <<>>, L <- 1, v <- <<>>, s <- 1, rounds <- 0

RECURSIVE Comps(_)
Comps(m) == IF m = 0 THEN {<<>>} ELSE UNION {{<<len>> \o c : c \in Comps(m - len)} : len \in 1..m}

RECURSIVE Before(_, _)
Before(c, i) == IF i <= 1 THEN 0 ELSE c[i - 1] + Before(c, i - 1)

CallRow(rs, c, i) ==
  LET k0 == Before(c, i) IN
  [k0 |-> k0, len |-> c[i], scan |-> I!ScanLen(c[i]),
   lo |-> I!Origin(rs, k0) + 1, hi |-> k0 + c[i],
   ranks1 |-> {r \in I!Ranks : I!RankOK(r, 1, c[i])},
   ranksB |-> {r \in I!Ranks : I!RankOK(r, 2, c[i])},
   buf_hi |-> IF rs THEN 0 ELSE k0 + c[i]]

RowsF == UNION { { [F |-> f, reset |-> rs, chunks |-> c, calls |-> [i \in 1..Len(c) |-> CallRow(rs, c, i)]] :
                     rs \in BOOLEAN, c \in Comps(f) } : f \in GF }

ASSUME JsonSerialize(IOEnv.OUT_FILE, [rows |-> RowsF])
ASSUME PrintT(<<"ROWS", Cardinality(RowsF)>>)

VARIABLE x
Init == x = 0
Next == UNCHANGED x
Spec == Init /\ [][Next]_x
================================================================================
