------------------------------ MODULE PatchingGen ------------------------------
(* spec -> code: every complete script of Patching (one outermost context from Enter    *)
(* until the machine is quiescent again and no exception is pending), as a sequence of  *)
(* action labels.  The driver realises each script with real nested retain_ltype /      *)
(* func.jacrev contexts and faults; the recorded run is validated by PatchingTrace.     *)
EXTENDS Naturals, Sequences, FiniteSets, TLC, Json, IOUtils

CONSTANTS GDepth, GPoints, GLen

P == INSTANCE Patching WITH MaxDepth <- GDepth, Points <- GPoints, HasFinally <- TRUE,
                            state <- 0, lastAct <- 0

Done(s) == s.stack = <<>> /\ s.exc = "no"

RECURSIVE Scripts(_, _)
Scripts(s, n) ==
  IF n = 0 THEN {}
  ELSE UNION { IF Done(p[2]) THEN { <<p[1]>> }
               ELSE { <<p[1]>> \o r : r \in Scripts(p[2], n - 1) } : p \in P!Succ(s) }

All == Scripts(P!InitState, GLen)

ASSUME JsonSerialize(IOEnv.OUT_FILE, [scripts |-> All])
ASSUME PrintT(<<"SCRIPTS", Cardinality(All)>>)
\* every script is complete within the bound (nothing was cut off): one more step adds nothing
ASSUME Cardinality(Scripts(P!InitState, GLen + 1)) = Cardinality(All)

VARIABLE x
Init == x = 0
Next == UNCHANGED x
Spec == Init /\ [][Next]_x
================================================================================
