SPECIFICATION Spec
CONSTANTS
  TDepth = 2
  TPoints = 2
INVARIANT ModelRestored
CHECK_DEADLOCK FALSE
