\* 3 arguments over 3 abstract values
SPECIFICATION Spec
CONSTANTS
  NArgs = 3
  Vals = {0, 1, 2}
INVARIANT PureKeepsArgs
PROPERTY OnlyWritersWrite
CHECK_DEADLOCK FALSE
