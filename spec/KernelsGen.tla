----------------------------- MODULE KernelsGen -----------------------------
(* spec -> code: tabulates, for one-row corrector instances with ARBITRARY rational rho', rho''   *)
(* (sqrt(rho') and alpha irrational in general, so the real outputs are not dyadic), the right-  *)
(* hand sides of the two identities of Kernels:                                                  *)
(*     grad = rho' J^T R          hess = rho' J^T J + 2 rho'' J^T R R^T J                         *)
(* and Huber values on rational (non-dyadic) squares.  The harness runs the real FastTriggs /     *)
(* Triggs with a quadratic kernel realising (rho', rho'') at |R|^2 on every row and compares      *)
(* J'^T R' and J'^T J' with these fractions in integer arithmetic (units of eps * sum|terms|).    *)
EXTENDS Naturals, Integers, Sequences, FiniteSets, TLC, Json, IOUtils

CONSTANTS GShapeCodes,   \* set of 10 d + P
          GRho1Sixths,   \* rho'  = k/6
          GRho2Fifths,   \* rho'' = (k - GOffset)/5
          GOffset,
          GHuberThirds,  \* Huber delta = k/3
          GHuberRoots    \* Huber inputs x = (k/3)^2, k in 0..GHuberRoots

K == INSTANCE Kernels WITH
       ShapeCodes <- {}, RMax <- 0, JMax <- 0, RSmall <- {}, JSmall <- {}, Rho1Quarters <- {},
       SqrtHalves <- {}, HuberDeltaHalves <- {}, HuberRoots <- 0,
       call <- "idle", arg <- <<>>, ret <- <<>>

RSet == {-2, 0, 1}
JSet == {-1, 2}

RowsOfShape(d, P) ==
  { [R |-> K!QVec(R), J |-> K!QMat(J), g1 |-> K!QMk(a, 6), g2 |-> K!QMk(b - GOffset, 5)] :
      R \in K!IntVecs(d, RSet), J \in K!IntMats(d, P, JSet), a \in GRho1Sixths, b \in GRho2Fifths }

AllRows == UNION { RowsOfShape(c \div 10, c % 10) : c \in GShapeCodes }

Rows == { [R |-> r.R, J |-> r.J, g1 |-> r.g1, g2 |-> r.g2,
           grad |-> K!GradRHS(<<r>>), hess |-> K!HessRHS(<<r>>, {1})] : r \in AllRows }

Huber == { [delta |-> K!QMk(dk, 3), x |-> K!QMk(k * k, 9), y |-> K!HuberDoc(K!QMk(dk, 3), K!QMk(k * k, 9))] :
             dk \in GHuberThirds, k \in 0..GHuberRoots }

ASSUME JsonSerialize(IOEnv.OUT_FILE, [rows |-> Rows, huber |-> Huber])
ASSUME PrintT(<<"ROWS", Cardinality(Rows), Cardinality(Huber)>>)

VARIABLE x
Init == x = 0
Next == UNCHANGED x
Spec == Init /\ [][Next]_x
================================================================================
