\* thorough (2): every call script for reject 0..2, three strategies, three hyper-parameter sets, every strategy state at entry
SPECIFICATION Spec
CONSTANTS
  GStrats = {"Constant", "Adaptive", "TrustRegion"}
  GRejects = {0, 1, 2}
  GHyper = "thorough"
