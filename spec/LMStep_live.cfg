\* liveness: every step() call ends (weak fairness of Next), reject 0..2 x 2 calls
SPECIFICATION Spec
CONSTANTS
  Algos = {"LM", "GN"}
  Strategies = {"Constant", "Adaptive", "TrustRegion"}
  RejectSet = {0, 1, 2}
  HyperSet <- HyperQuick
  MaxCalls = 2
  Variant = "code"
INVARIANT TypeOK
PROPERTY CallTerminates
CHECK_DEADLOCK FALSE
