----------------------------- MODULE CameraTrace -----------------------------
(* Validates recorded calls of the real cart2homo / homo2cart / point2pixel /          *)
(* pixel2point / reprojerr against Camera.  Inputs are logged as integers (points,      *)
(* Hurwitz quaternion doubled, translation) and fractions (intrinsics); outputs as the  *)
(* fraction nearest to the returned float (within 64 eps, else <<0,0>>).  Every expected *)
(* value is computed here.  One event per call group per batch element.                  *)
EXTENDS Naturals, Integers, Sequences, FiniteSets, TLC, Json, IOUtils

Traces == JsonDeserialize(IOEnv.TRACE_FILE)

C == INSTANCE Camera WITH
       CoordMag <- {}, FocalQ <- {}, CenterQ <- {}, Trans <- {}, Deltas <- {},
       world <- <<>>, cam <- <<>>, stage <- "", pix <- <<>>, depth <- <<>>, back <- <<>>, err <- <<>>

VARIABLES tid, l, st, verdict

Ext(e) == IF e.q2 = <<>> THEN <<>> ELSE <<e.q2, e.t>>
Rows(x) == 1..Len(x)

\* point2pixel, then pixel2point with the camera-frame depth, then reprojerr on the produced
\* pixels and on pixels displaced by the integer offsets d
ProjectClause(e) ==
  LET ext == Ext(e)
      n == Len(e.P)
      px(i) == <<C!QAdd(e.pix[i][1], C!QI(e.d[i][1])), C!QAdd(e.pix[i][2], C!QI(e.d[i][2]))>>
  IN CASE \E i \in 1..n : C!Act(ext, e.P[i])[3] = 0                  -> "camera_unjudged_input"
       [] Len(e.pix) # n \/ \E i \in 1..n : e.pix[i] # C!Project(e.P[i], e.K, ext) -> "pixel"
       [] e.has_back /\ (Len(e.back) # n \/ \E i \in 1..n : e.back[i] # C!QVec(C!Act(ext, e.P[i]))) -> "pixel2point_inverse"
       [] \E i \in 1..n : e.err0[i] # <<C!QZero, C!QZero>>           -> "reprojerr_nonzero"
       [] \E i \in 1..n : e.err_none[i] # C!ReprojNone(e.P[i], px(i), e.K, ext) -> "reprojerr_none"
       [] \E i \in 1..n : e.err_sum[i] # C!ReprojSum(e.P[i], px(i), e.K, ext)   -> "reprojerr_sum"
       [] \E i \in 1..n : e.err_norm2[i] # C!ReprojNorm2(e.P[i], px(i), e.K, ext) -> "reprojerr_norm"
       [] OTHER -> "ok"

\* pixel2point on quarter-pixel / half-depth lattice inputs, then point2pixel of the result
PixelFirstClause(e) ==
  LET n == Len(e.pixq)
      px(i) == <<C!QN(e.pixq[i][1], 4), C!QN(e.pixq[i][2], 4)>>
      z(i) == C!QN(e.z2[i], 2)
  IN CASE \E i \in 1..n : e.z2[i] = 0                                 -> "camera_unjudged_input"
       [] Len(e.pts) # n \/ \E i \in 1..n : e.pts[i] # C!BackProject(px(i), z(i), e.K) -> "pixel2point"
       [] Len(e.pix_back) # n \/ \E i \in 1..n : e.pix_back[i] # px(i) -> "point2pixel_inverse"
       [] OTHER -> "ok"

HomoClause(e) ==
  LET n == Len(e.P) IN
  CASE Len(e.homo) # n \/ \E i \in 1..n : e.homo[i] # C!Cart2Homo(C!QVec(e.P[i])) -> "cart2homo"
    [] Len(e.back) # n \/ \E i \in 1..n : e.back[i] # C!QVec(e.P[i])               -> "homo2cart"
    [] OTHER -> "ok"

Clause(e) ==
  CASE e.act = "project"    -> ProjectClause(e)
    [] e.act = "pixelfirst" -> PixelFirstClause(e)
    [] e.act = "homo"       -> HomoClause(e)
    [] e.act = "raise"      -> "raised"
    [] OTHER -> "unknown_event"

Init == tid \in 1..Len(Traces) /\ l = 1 /\ st = 0 /\ verdict = "ok"

Next ==
  LET T == Traces[tid] IN
  /\ l <= Len(T.ev)
  /\ LET e == T.ev[l]
         cl == Clause(e) IN
       /\ verdict' = IF verdict = "ok" /\ cl # "ok" THEN cl \o "@" \o ToString(l) ELSE verdict
       /\ st' = l
       /\ (l = Len(T.ev)) => PrintT(<<"VERDICT", tid, verdict'>>)
  /\ l' = l + 1 /\ UNCHANGED tid

Spec == Init /\ [][Next]_<<tid, l, st, verdict>>
================================================================================
