------------------------------- MODULE LieTrace -------------------------------
(* Validates results recorded from the real LieTensor operations on the exact lattice  *)
(* against LieExact.  Two kinds of events:                                              *)
(*   stateless  {op, ty, x, y / p / a, out}: the spec recomputes the result from the    *)
(*              logged inputs and compares under the property's equivalence             *)
(*              (group elements as transformations: quaternion modulo sign);            *)
(*   history    {op: "h...", g / t, out}: one real LieTensor is driven through a        *)
(*              behaviour of LieGroupMC; the spec keeps the element and its ghost       *)
(*              matrix and compares after every action.                                 *)
EXTENDS LieExact, Json, IOUtils

Traces == JsonDeserialize(IOEnv.TRACE_FILE)

VARIABLES tid, l, st, verdict
\* st = [X |-> element, M |-> ghost matrix]   (history events only)

Flat(Mx) == IF Len(Mx) = 3 THEN Mx[1] \o Mx[2] \o Mx[3] ELSE Mx[1] \o Mx[2] \o Mx[3] \o Mx[4]

PadOK(ty, a) == Len(a) >= AlgDim(ty)

\* expected-vs-logged comparison for one stateless event; returns the failing clause or "ok"
Stateless(e) ==
  LET ty == e.ty
      X  == IF e.op \in {"drift", "cumfold"} THEN Id ELSE Decode(ty, e.x) IN
  CASE e.op = "mul" ->
         LET Z == Decode(ty, e.out) IN
         IF ~SameElem(Z, Mul(X, Decode(ty, e.y))) THEN "mul"
         ELSE IF ~Valid(ty, Z) THEN "valid_out" ELSE "ok"
    [] e.op = "inv" ->
         LET Z == Decode(ty, e.out) IN
         IF ~SameElem(Z, Inv(X)) THEN "inv" ELSE IF ~Valid(ty, Z) THEN "valid_out" ELSE "ok"
    [] e.op = "act3"  -> IF e.out = Act3(X, e.p) THEN "ok" ELSE "act3"
    [] e.op = "act4"  -> IF e.out = Act4(X, e.p) THEN "ok" ELSE "act4"
    [] e.op = "matrix" -> IF e.out = Flat(MatrixOf(ty, X)) THEN "ok" ELSE "matrix"
    [] e.op = "rotation" ->
         IF e.out = X.q \/ e.out = QNeg(X.q) THEN "ok" ELSE "rotation"
    [] e.op = "translation" -> IF e.out = X.t THEN "ok" ELSE "translation"
    [] e.op = "scale" -> IF e.out = <<X.s>> THEN "ok" ELSE "scale"
    [] e.op = "identity" ->
         IF SameElem(Decode(ty, e.out), Id) /\ Decode(ty, e.out).q = QOne THEN "ok" ELSE "identity"
    [] e.op = "adj"  -> IF e.out = EncodeAlg(ty, Adj(X, DecodeAlg(ty, e.a))) THEN "ok" ELSE "adj"
    [] e.op = "adjT" -> IF e.out = EncodeAlg(ty, AdjT(X, DecodeAlg(ty, e.a))) THEN "ok" ELSE "adjT"
    [] e.op = "retr" ->   \* a may carry extra components beyond the manifold dimension: ignored
         LET A == DecodeAlg(ty, e.a)
             Z == Decode(ty, e.out) IN
         IF ~IsPureTrans(A) THEN "retr_input_not_exact"
         ELSE IF ~SameElem(Z, Retr(X, A)) THEN "retr"
         ELSE IF ~Valid(ty, Z) THEN "valid_out" ELSE "ok"
    [] e.op = "drift" ->   \* long float histories: unit norm within 8 n eps, positive scale, finite
         IF ~e.finite THEN "drift_finite"
         ELSE IF e.dev > 8 * e.n + 8 THEN "drift_unit"
         ELSE IF ~e.spos THEN "drift_scale" ELSE "ok"
    [] e.op = "cumfold" ->   \* cumprod / cummul: position i holds x_i ... x_1 (left) or x_1 ... x_i (right)
         \* Folds(k) = <<fold_1, .., fold_k>>.  The previous prefix is bound through a set comprehension: operator arguments
         \* and LET definitions are lazy in TLC, and a recursive fold whose previous value is re-evaluated at every use
         \* inside Mul is exponential in the length (the thorough tier, L = 16, did not finish in an hour).
         LET n == Len(e.xs)
             RECURSIVE Folds(_)
             Folds(k) == IF k = 1 THEN <<Decode(ty, e.xs[1])>>
                         ELSE CHOOSE r \in { Append(f, IF e.left THEN Mul(x, f[k - 1]) ELSE Mul(f[k - 1], x)) :
                                               f \in {Folds(k - 1)}, x \in {Decode(ty, e.xs[k])} } : TRUE IN
         IF Len(e.outs) # n THEN "cumfold_length"
         ELSE IF \E F \in {Folds(n)} : \E i \in 1..n : ~SameElem(Decode(ty, e.outs[i]), F[i]) THEN "cumfold"
         ELSE "ok"
    [] e.op = "algadd" -> IF e.out = VAdd(e.x, e.a) THEN "ok" ELSE "algadd"
    [] e.op = "raise" -> "raised"        \* a group operation on valid operands raised
    [] OTHER -> "unknown_op"

IsHist(e) == e.op \in {"hmull", "hmulr", "hinv", "hretr"}

HistExpected(ty, s, e) ==
  CASE e.op = "hmulr" -> [X |-> Mul(s.X, Decode(ty, e.g)), M |-> MatMul(s.M, Mat4(Decode(ty, e.g)))]
    [] e.op = "hmull" -> [X |-> Mul(Decode(ty, e.g), s.X), M |-> MatMul(Mat4(Decode(ty, e.g)), s.M)]
    [] e.op = "hinv"  -> [X |-> Inv(s.X), M |-> Mat4(Inv(s.X))]
    [] e.op = "hretr" -> [X |-> Retr(s.X, DecodeAlg(ty, e.a)),
                          M |-> MatMul(Mat4(ExpT(DecodeAlg(ty, e.a))), s.M)]

HistClause(ty, s, e) ==
  LET x == HistExpected(ty, s, e)
      Z == Decode(ty, e.out) IN
  CASE ~SameElem(Z, x.X)          -> e.op
    [] ~Valid(ty, Z)              -> "valid_out"
    [] e.mat # Flat(MatrixOf(ty, x.X)) -> "matrix_after_" \o e.op
    [] Mat4(x.X) # x.M            -> "homomorphism"
    [] OTHER -> "ok"

Init == tid \in 1..Len(Traces) /\ l = 1 /\ st = [X |-> Id, M |-> Ident(4)] /\ verdict = "ok"

Next ==
  LET T == Traces[tid] IN
  /\ l <= Len(T.ev)
  /\ LET e  == T.ev[l]
         cl == IF IsHist(e) THEN HistClause(T.cfg.ty, st, e) ELSE Stateless(e) IN
       /\ verdict' = IF verdict = "ok" /\ cl # "ok" THEN cl \o "@" \o ToString(l) ELSE verdict
       /\ st' = IF IsHist(e)
                THEN [X |-> Decode(T.cfg.ty, e.out), M |-> Mat4(Decode(T.cfg.ty, e.out))]
                ELSE st
       /\ (l = Len(T.ev)) => PrintT(<<"VERDICT", tid, verdict'>>)
  /\ l' = l + 1 /\ UNCHANGED tid

Spec == Init /\ [][Next]_<<tid, l, st, verdict>>
================================================================================
