-------------------------------- MODULE NormalEq --------------------------------
(* The linear-algebra content of one GaussNewton step / one LevenbergMarquardt trial of   *)
(* pypose.optim, as DOCUMENTED (optimizer.py class docstrings, property C07), over exact   *)
(* dyadic rationals (module Dyadic) with the true Jacobian from dual numbers (LieJac).     *)
(*                                                                                        *)
(* A model description  m  (a record, logged by the driver or enumerated by NormalEqMC):   *)
(*   ty      group type of every LieTensor in the model ("SO3" "SE3" "RxSO3" "Sim3")       *)
(*   kinds   per ELEMENT (= one LieJac input): "G" group, "A" algebra, "V" Euclidean       *)
(*   vals    per element: its coordinates in the tensor layout, dyadics                    *)
(*   params  in named_parameters order: [fr |-> frozen?, el |-> <<element ids>>]           *)
(*           (a batched parameter has one element per batch item, row-major)               *)
(*   blocks  the residual tensors in output order: [R |-> residual dimension (the last     *)
(*           tensor dimension), bshape |-> batch dimensions, items |-> row-major list of   *)
(*           items]; an item is the residual vector of one batch position:                 *)
(*             [loc |-> element ids of its inputs, tgt |-> target vector,                  *)
(*              terms |-> << [t |-> "prog", c |-> coefficient, prog |-> LieJac program] |   *)
(*                           [t |-> "lin",  c |-> coefficient, k |-> local input, M |-> matrix] >> ] *)
(*           with value  sum_j c_j T_j(inputs) - tgt                                       *)
(*   wt      <<>> (no weight) or per block [wshape |-> batch dims of the weight tensor,     *)
(*           mats |-> row-major list of its R x R matrices]                                 *)
(*   cor     <<>> (Trivial corrector) or per block the per-item action of the corrector     *)
(*           (user corrector matrices, FastTriggs / Triggs with a polynomial kernel)        *)
(*                                                                                        *)
(* Documented system (rows: blocks in output order, each flattened row-major with the      *)
(* residual dimension last; columns: TRAINABLE parameters in named_parameters order, each  *)
(* element in its TANGENT coordinates, left perturbation for group elements):              *)
(*   GN       delta = a least-squares solution of  (W J) delta = -(W R)                    *)
(*   LM       A_0 = J'WJ with its diagonal clamped into [min, max],                        *)
(*            A_k = A_(k-1) + lambda_k diag(A_(k-1)),   b = -J'WR,   A_k delta = b         *)
(*   update   Euclidean / algebra element: x + delta;  group element: Exp(delta) @ X;      *)
(*            requires_grad = False: untouched (and no column in the system)               *)
EXTENDS LieJac

\* ------------------------------------------------------------------ sequences, shapes
RECURSIVE CatN(_, _)
CatN(ss, n) == IF n = 0 THEN <<>> ELSE CatN(ss, n - 1) \o ss[n]
Cat(ss)     == CatN(ss, Len(ss))                       \* concatenate a sequence of sequences
RECURSIVE ProdN(_, _)
ProdN(s, n) == IF n = 0 THEN 1 ELSE ProdN(s, n - 1) * s[n]
Prod(s)     == ProdN(s, Len(s))                        \* number of items of a batch shape (1 for <<>>)
RECURSIVE SumN(_, _)
SumN(s, n)  == IF n = 0 THEN 0 ELSE SumN(s, n - 1) + s[n]
Sum(s)      == SumN(s, Len(s))
ZeroRow(n)  == TLCEval([j \in 1..n |-> DZero])
ZeroMat(m, n) == TLCEval([i \in 1..m |-> ZeroRow(n)])
SubVec(v, idx) == TLCEval([i \in 1..Len(idx) |-> v[idx[i]]])
SubCols(A, idx) == TLCEval([r \in 1..Len(A) |-> SubVec(A[r], idx)])
SubMat(A, idx) == TLCEval([r \in 1..Len(idx) |-> SubVec(A[idx[r]], idx)])
Slice(v, lo, n) == TLCEval([i \in 1..n |-> v[lo + i]])                \* v[lo+1 .. lo+n]

\* row-major multi-index (0-based) of the linear index i (0-based) in shape s, and back
RECURSIVE Unravel(_, _)
Unravel(i, s) == IF Len(s) = 0 THEN <<>>
                 ELSE LET rest == Prod(Tail(s)) IN <<i \div rest>> \o Unravel(i % rest, Tail(s))
RECURSIVE RavelN(_, _, _)
RavelN(mi, s, n) == IF n = 0 THEN 0 ELSE RavelN(mi, s, n - 1) * s[n] + mi[n]
Ravel(mi, s) == RavelN(mi, s, Len(s))

\* ------------------------------------------------------------------ weights
\* A weight tensor of shape  wshape x R x R  is BROADCAST against the residual batch shape (torch
\* semantics: right-aligned, extent 1 repeats).  Item i (0-based, row-major in bshape) is weighted by
\* matrix number WIndex (0-based, row-major in wshape).
Broadcastable(bshape, wshape) ==
  /\ Len(wshape) <= Len(bshape)
  /\ \A a \in 1..Len(wshape) : wshape[a] \in {1, bshape[Len(bshape) - Len(wshape) + a]}
WIndex(bshape, wshape, i) ==
  LET k == Len(bshape)  j == Len(wshape)  mi == Unravel(i, bshape)
      wi == [a \in 1..j |-> IF wshape[a] = 1 THEN 0 ELSE mi[k - j + a]]
  IN  Ravel(wi, wshape)
\* the documented example shapes are the SUFFIXES of the residual batch shape (R*R, N*R*R, M*N*R*R, ...)
IsSuffix(bshape, wshape) ==
  /\ Len(wshape) <= Len(bshape)
  /\ \A a \in 1..Len(wshape) : wshape[a] = bshape[Len(bshape) - Len(wshape) + a]
\* tiling the list of matrices (what repeating the list `numel / len` times amounts to)
TileIndex(wshape, i) == i % Prod(wshape)

\* per-item weight matrices of a block (sequence over the items, row-major)
ItemWeights(blk, w) == TLCEval([i \in 1..Prod(blk.bshape) |-> w.mats[WIndex(blk.bshape, w.wshape, i - 1) + 1]])

\* block-diagonal matrix of a sequence of square matrices
BlockDiag(Ws) ==
  LET sizes == [i \in 1..Len(Ws) |-> Len(Ws[i])]
      total == Sum(sizes)
      offs  == [i \in 1..Len(Ws) |-> SumN(sizes, i - 1)]
  IN  Cat([i \in 1..Len(Ws) |->
             [r \in 1..sizes[i] |-> ZeroRow(offs[i]) \o Ws[i][r] \o ZeroRow(total - offs[i] - sizes[i])]])

IsSymmetric(A) == \A i, j \in 1..Len(A) : A[i][j] = A[j][i]

\* ------------------------------------------------------------------ the model: R and J
Elems(m, all) ==      \* <<[g, fr]>> elements of the (all / trainable) parameters, in column order
  Cat([p \in 1..Len(m.params) |->
         IF m.params[p].fr /\ ~all THEN <<>>
         ELSE [e \in 1..Len(m.params[p].el) |-> [g |-> m.params[p].el[e], fr |-> m.params[p].fr]]])
TDim(m, g)  == TanDim(m.ty, m.kinds[g], m.vals[g])
Columns(m)  == LET es == Elems(m, FALSE) IN [i \in 1..Len(es) |-> es[i].g]    \* trainable elements
NCols(m)    == LET c == Columns(m) IN Sum([i \in 1..Len(c) |-> TDim(m, c[i])])
Items(m)    == Cat([b \in 1..Len(m.blocks) |-> m.blocks[b].items])
ItemDims(m) == Cat([b \in 1..Len(m.blocks) |-> [i \in 1..Len(m.blocks[b].items) |-> m.blocks[b].R]])
NRows(m)    == Sum(ItemDims(m))

LKinds(m, it) == TLCEval([i \in 1..Len(it.loc) |-> m.kinds[it.loc[i]]])
LVals(m, it)  == TLCEval([i \in 1..Len(it.loc) |-> m.vals[it.loc[i]]])

RECURSIVE Uses(_, _)          \* does program e read local input l ?
Uses(e, l) == IF e.op = "in" THEN e.k = l
              ELSE IF e.op \in {"inv", "exp", "log", "matrix", "tensor"} THEN Uses(e.a, l)
              ELSE Uses(e.a, l) \/ Uses(e.b, l)

TermDefined(m, it, t) == t.t = "lin" \/ Defined(m.ty, t.prog, BaseEnv(m.ty, LKinds(m, it), LVals(m, it)))
ModelDefined(m) == \A b \in 1..Len(m.blocks) : \A i \in 1..Len(m.blocks[b].items) :
                     LET it == m.blocks[b].items[i] IN \A j \in 1..Len(it.terms) : TermDefined(m, it, it.terms[j])

TermVal(m, it, t) == IF t.t = "prog" THEN Value(m.ty, t.prog, LKinds(m, it), LVals(m, it))
                     ELSE MatVec(t.M, m.vals[it.loc[t.k]])
\* Jacobian of a term with respect to local input l (rows: outputs, columns: tangent coordinates)
TermJac(m, it, t, l, rdim) ==
  LET n == TDim(m, it.loc[l]) IN
  IF t.t = "prog" THEN (IF Uses(t.prog, l) THEN Jacobian(m.ty, t.prog, LKinds(m, it), LVals(m, it), l)
                        ELSE ZeroMat(rdim, n))
  ELSE (IF t.k = l THEN t.M ELSE ZeroMat(rdim, n))

RECURSIVE SumVecs(_, _, _)    \* sum_j c[j] * v[j]
SumVecs(cs, vs, n) == IF n = 1 THEN VScale(cs[1], vs[1]) ELSE VAdd(SumVecs(cs, vs, n - 1), VScale(cs[n], vs[n]))
RECURSIVE SumMats(_, _, _)
SumMats(cs, Ms, n) == IF n = 1 THEN MatScale(cs[1], Ms[1]) ELSE MatAdd(SumMats(cs, Ms, n - 1), MatScale(cs[n], Ms[n]))

Coefs(it) == [j \in 1..Len(it.terms) |-> it.terms[j].c]
ItemVal(m, it) ==
  Only({ VSub(SumVecs(Coefs(it), vs, Len(vs)), it.tgt) :
         vs \in { TLCEval([j \in 1..Len(it.terms) |-> TermVal(m, it, it.terms[j])]) } })
LocalOf(it, g) == IF \E l \in 1..Len(it.loc) : it.loc[l] = g THEN CHOOSE l \in 1..Len(it.loc) : it.loc[l] = g ELSE 0
ItemJacG(m, it, rdim, g) ==      \* rdim x TDim(g) block of the item with respect to element g
  LET l == LocalOf(it, g) IN
  IF l = 0 THEN ZeroMat(rdim, TDim(m, g))
  ELSE Only({ SumMats(Coefs(it), Ms, Len(Ms)) :
              Ms \in { TLCEval([j \in 1..Len(it.terms) |-> TermJac(m, it, it.terms[j], l, rdim)]) } })
ItemRows(m, it, rdim, cols) ==   \* the rdim rows of J contributed by the item
  Only({ TLCEval([r \in 1..rdim |-> Cat([c \in 1..Len(cols) |-> bl[c][r]])]) :
         bl \in { TLCEval([c \in 1..Len(cols) |-> ItemJacG(m, it, rdim, cols[c])]) } })

\* raw residual vector and true Jacobian (before corrector and weight)
RawR(m) == LET its == Items(m) IN Cat(TLCEval([i \in 1..Len(its) |-> ItemVal(m, its[i])]))
RawJ(m) == LET its == Items(m)  ds == ItemDims(m)  cols == Columns(m) IN
           Cat(TLCEval([i \in 1..Len(its) |-> ItemRows(m, its[i], ds[i], cols)]))

\* rows of block b inside the stacked vectors: <<offset, count>>
BlockRows(m, b) == LET n == [k \in 1..Len(m.blocks) |-> m.blocks[k].R * Len(m.blocks[k].items)] IN <<SumN(n, b - 1), n[b]>>

\* ------------------------------------------------------------------ corrector
\* "R, J are first passed through the configured corrector": per block; the corrector's action on a
\* lattice instance is given per item by two matrices (R' = CR R_item, J' = CJ J_item):
\*   [t |-> "none"]                              Trivial
\*   [t |-> "mat", C |-> <<per item R x R>>, CJ |-> <<per item R x R>>]   any user corrector acting item-wise linearly
\*   [t |-> "ft", dk |-> <<rho' coefficients>>, s |-> <<per item s_i>>]   FastTriggs with a polynomial
\*        kernel: CR = CJ = s_i I where s_i >= 0 and s_i^2 = rho'(|R_item|^2)
\*   [t |-> "tr", dk, s, u |-> <<per item u_i>>]   Triggs with a polynomial kernel: where rho'' > 0 and R_item # 0,
\*        alpha = 1 - u_i with u_i >= 0, rho' u_i^2 = rho' + 2 |R|^2 rho'',  CR = s_i / (1 - alpha) I,
\*        CJ = s_i (I - alpha R R' / |R|^2);  elsewhere as FastTriggs           (data checked by KernelDataOK)
RECURSIVE PolyN(_, _, _)
PolyN(cf, x, n) == IF n = 0 THEN DZero ELSE DAdd(cf[Len(cf) - n + 1], DMul(x, PolyN(cf, x, n - 1)))
Poly(cf, x) == PolyN(cf, x, Len(cf))           \* cf[1] + cf[2] x + cf[3] x^2 ...
PolyD(cf)   == [i \in 1..(Len(cf) - 1) |-> DMul(D(i), cf[i + 1])]     \* coefficients of the derivative
TriggsMasked(cr, r) == LET x == Dot(r, r) IN x # DZero /\ DIsPos(Poly(PolyD(cr.dk), x))
CorMatR(cr, i, rdim, r) ==
  CASE cr.t = "none" -> Ident(rdim)
    [] cr.t = "mat"  -> cr.C[i]
    [] cr.t = "ft"   -> MatScale(cr.s[i], Ident(rdim))
    [] cr.t = "tr"   -> IF TriggsMasked(cr, r) THEN MatScale(DMul(cr.s[i], DInvPow2(cr.u[i])), Ident(rdim))
                        ELSE MatScale(cr.s[i], Ident(rdim))
CorMatJ(cr, i, rdim, r) ==
  CASE cr.t = "none" -> Ident(rdim)
    [] cr.t = "mat"  -> cr.CJ[i]
    [] cr.t = "ft"   -> MatScale(cr.s[i], Ident(rdim))
    [] cr.t = "tr"   -> IF TriggsMasked(cr, r)
                        THEN LET x == Dot(r, r)  aox == DMul(DSub(DOne, cr.u[i]), DInvPow2(x)) IN      \* alpha / |R|^2
                             MatScale(cr.s[i], MatAdd(Ident(rdim), MatScale(DNeg(aox), Outer(r, r))))
                        ELSE MatScale(cr.s[i], Ident(rdim))
BlockCor(m, b) == IF Len(m.cor) = 0 THEN [t |-> "none"] ELSE m.cor[b]
\* per item: <<block, index in block, residual dimension, row offset in the stacked vector>>
ItemIndex(m) == Cat([b \in 1..Len(m.blocks) |->
                       [i \in 1..Len(m.blocks[b].items) |->
                          <<b, i, m.blocks[b].R, BlockRows(m, b)[1] + (i - 1) * m.blocks[b].R>>]])
CorMats(m, Rv, forJ) ==
  LET ix == ItemIndex(m) IN
  TLCEval([k \in 1..Len(ix) |->
     LET r == Slice(Rv, ix[k][4], ix[k][3]) IN
     IF forJ THEN CorMatJ(BlockCor(m, ix[k][1]), ix[k][2], ix[k][3], r)
     ELSE CorMatR(BlockCor(m, ix[k][1]), ix[k][2], ix[k][3], r)])
HasCor(m) == \E b \in 1..Len(m.cor) : m.cor[b].t # "none"
Corrected(m, Rv, J) ==         \* <<R', J'>>
  IF ~HasCor(m) THEN <<Rv, J>>
  ELSE Only({ <<MatVec(CR, Rv), MatMul(CJ, J)>> :
              CR \in { BlockDiag(CorMats(m, Rv, FALSE)) }, CJ \in { BlockDiag(CorMats(m, Rv, TRUE)) } })
\* FastTriggs / Triggs instance data is consistent with the kernel polynomial at the true residuals
KernelDataOK(m) ==
  \A b \in 1..Len(m.cor) : m.cor[b].t \in {"ft", "tr"} =>
    \A i \in 1..Len(m.blocks[b].items) :
      LET r == ItemVal(m, m.blocks[b].items[i])  x == Dot(r, r)  s == m.cor[b].s[i]
          g1 == Poly(m.cor[b].dk, x)  g2 == Poly(PolyD(m.cor[b].dk), x) IN
      /\ ~DLess(s, DZero) /\ DMul(s, s) = g1
      /\ (m.cor[b].t = "tr" /\ TriggsMasked(m.cor[b], r)) =>
           LET u == m.cor[b].u[i] IN
           /\ DIsPos(u) /\ IsPow2D(u) /\ IsPow2D(x) /\ DIsPos(g1)
           /\ DMul(g1, DMul(u, u)) = DAdd(g1, DMul(D(2), DMul(x, g2)))

\* ------------------------------------------------------------------ weight of the whole model
HasWeight(m) == Len(m.wt) > 0
WeightMats(m) == Cat([b \in 1..Len(m.blocks) |-> ItemWeights(m.blocks[b], m.wt[b])])
WeightOK(m) == HasWeight(m) =>
  /\ Len(m.wt) = Len(m.blocks)
  /\ \A b \in 1..Len(m.blocks) :
       /\ Broadcastable(m.blocks[b].bshape, m.wt[b].wshape)
       /\ Len(m.wt[b].mats) = Prod(m.wt[b].wshape)
       /\ \A k \in 1..Len(m.wt[b].mats) : Len(m.wt[b].mats[k]) = m.blocks[b].R /\ IsSymmetric(m.wt[b].mats[k])
FullWeight(m) == IF HasWeight(m) THEN BlockDiag(WeightMats(m)) ELSE Ident(NRows(m))

\* ------------------------------------------------------------------ the documented systems
\* L = [R, J] after the corrector, W, and the raw R0, J0 handed to the corrector
Linearise(m) ==
  Only({ Only({ [R |-> c[1], J |-> c[2], W |-> FullWeight(m), hasW |-> HasWeight(m), R0 |-> r0, J0 |-> j0] :
                c \in { Corrected(m, r0, j0) } }) :
         r0 \in { RawR(m) }, j0 \in { RawJ(m) } })
GNSystem(L) == IF L.hasW THEN [A |-> MatMul(L.W, L.J), b |-> VNeg(MatVec(L.W, L.R))]
               ELSE [A |-> L.J, b |-> VNeg(L.R)]
\* the least-squares solutions of A x = b are the solutions of A'A x = A'b
NormalForm(A, b) == Only({ [N |-> MatMul(At, A), g |-> MatVec(At, b)] : At \in {Transpose(A)} })

DClamp(x, lo, hi) == IF DLess(x, lo) THEN lo ELSE IF DLess(hi, x) THEN hi ELSE x
MapDiag(A, F(_)) == TLCEval([i \in 1..Len(A) |-> [j \in 1..Len(A) |-> IF i = j THEN F(A[i][i]) ELSE A[i][j]]])
ClampDiag(A, lo, hi) == LET F(x) == DClamp(x, lo, hi) IN MapDiag(A, F)
Damp(A, lam)         == LET F(x) == DAdd(x, DMul(lam, x)) IN MapDiag(A, F)   \* A + lam diag(A)
Hessian(L) == Only({ [H |-> MatMul(JtW, L.J), b |-> VNeg(MatVec(JtW, L.R))] :
                     JtW \in { IF L.hasW THEN MatMul(Transpose(L.J), L.W) ELSE Transpose(L.J) } })
LMInit(L, lo, hi) == Only({ [A |-> ClampDiag(h.H, lo, hi), b |-> h.b] : h \in {Hessian(L)} })
RECURSIVE LMTrial(_, _, _)       \* A_k for the damping values lams[1..k] in force at trials 1..k
LMTrial(A0, lams, k) == IF k = 0 THEN A0 ELSE Damp(LMTrial(A0, lams, k - 1), lams[k])
\* closed form of the diagonal of A_k: clamp(H_ii) * prod_j (1 + lambda_j)
RECURSIVE Growth(_, _)
Growth(lams, k) == IF k = 0 THEN DOne ELSE DMul(Growth(lams, k - 1), DAdd(DOne, lams[k]))

\* ------------------------------------------------------------------ column layouts
\* The implementation may carry more columns than the tangent dimension (one padding column per
\* group element: the embedding has one more coordinate than the tangent space).  Layouts:
\*   "tan"  tangent columns of trainable elements (the documented system itself)
\*   "emb"  embedding columns of trainable elements
\*   "tan_all" / "emb_all"  the same over all parameters including frozen ones
\* Columns outside Keep must be DECOUPLED (zero) so that dropping them does not change the solution.
LayoutAll(layout) == layout \in {"tan_all", "emb_all"}
LayoutEmb(layout) == layout \in {"emb", "emb_all"}
ElemWidth(m, g, layout) == IF LayoutEmb(layout) /\ m.kinds[g] = "G" THEN GDim(m.ty) ELSE TDim(m, g)
RECURSIVE KeepFrom(_, _, _, _, _)
KeepFrom(m, layout, els, i, off) ==
  IF i > Len(els) THEN <<>>
  ELSE (IF els[i].fr THEN <<>> ELSE [c \in 1..TDim(m, els[i].g) |-> off + c])
       \o KeepFrom(m, layout, els, i + 1, off + ElemWidth(m, els[i].g, layout))
Keep(m, layout)  == KeepFrom(m, layout, Elems(m, LayoutAll(layout)), 1, 0)
Width(m, layout) == LET es == Elems(m, LayoutAll(layout)) IN Sum([i \in 1..Len(es) |-> ElemWidth(m, es[i].g, layout)])
Dropped(m, layout) == {c \in 1..Width(m, layout) : \A i \in 1..NCols(m) : Keep(m, layout)[i] # c}
\* dropped columns of a rectangular system (GN) / rows and columns of a square system (LM) are zero
DecoupledRect(A, drop)   == \A r \in 1..Len(A) : \A c \in drop : A[r][c] = DZero
DecoupledSquare(A, b, drop) == \A c \in drop : /\ b[c] = DZero
                                               /\ \A r \in 1..Len(A) : r # c => (A[r][c] = DZero /\ A[c][r] = DZero)

\* ------------------------------------------------------------------ split of delta, updates
\* delta (tangent layout) is split over the trainable elements in column order
Offsets(m) == LET c == Columns(m)  d == [i \in 1..Len(c) |-> TDim(m, c[i])] IN [i \in 1..Len(c) |-> SumN(d, i - 1)]
DeltaOf(m, delta, g) ==      \* the slice of element g (zero vector for a frozen element)
  LET c == Columns(m)  o == Offsets(m) IN
  IF \E i \in 1..Len(c) : c[i] = g
  THEN LET i == CHOOSE i \in 1..Len(c) : c[i] = g IN Slice(delta, o[i], TDim(m, g))
  ELSE VZero(TDim(m, g))

PlainG(ty, x) ==
  CASE ty = "SO3"   -> P!Elem(<<DZero, DZero, DZero>>, <<x[1], x[2], x[3], x[4]>>, DOne)
    [] ty = "SE3"   -> P!Elem(<<x[1], x[2], x[3]>>, <<x[4], x[5], x[6], x[7]>>, DOne)
    [] ty = "RxSO3" -> P!Elem(<<DZero, DZero, DZero>>, <<x[1], x[2], x[3], x[4]>>, x[5])
    [] ty = "Sim3"  -> P!Elem(<<x[1], x[2], x[3]>>, <<x[4], x[5], x[6], x[7]>>, x[8])
PlainA(ty, a) ==
  CASE ty = "SO3"   -> P!Alg(<<DZero, DZero, DZero>>, <<a[1], a[2], a[3]>>, DZero)
    [] ty = "SE3"   -> P!Alg(<<a[1], a[2], a[3]>>, <<a[4], a[5], a[6]>>, DZero)
    [] ty = "RxSO3" -> P!Alg(<<DZero, DZero, DZero>>, <<a[1], a[2], a[3]>>, a[4])
    [] ty = "Sim3"  -> P!Alg(<<a[1], a[2], a[3]>>, <<a[4], a[5], a[6]>>, a[7])
\* increments whose exponential is exact: zero rotation and zero log-scale part
RotationFree(ty, d) == LET a == PlainA(ty, d) IN a.phi = <<DZero, DZero, DZero>> /\ a.sigma = DZero
\* the retraction  Exp(d) @ X  (left multiplication)
Retract(ty, x, d) == P!Retr(PlainG(ty, x), PlainA(ty, d))
SameGroupElem(X, Y) == X.t = Y.t /\ X.s = Y.s /\ (X.q = Y.q \/ X.q = VNeg(Y.q))    \* same transformation

\* is  y  the documented result of updating element g (value x) by its slice of delta ?
UpdatedElem(m, g, fr, d, y) ==
  LET x == m.vals[g] IN
  IF fr THEN y = x
  ELSE IF m.kinds[g] = "G" THEN Len(y) = Len(x) /\ SameGroupElem(PlainG(m.ty, y), Retract(m.ty, x, d))
  ELSE y = VAdd(x, d)
\* after: values of all parameter elements in Elems(m, TRUE) order
UpdateOK(m, delta, after) ==
  LET es == Elems(m, TRUE) IN
  /\ Len(after) = Len(es)
  /\ \A i \in 1..Len(es) : UpdatedElem(m, es[i].g, es[i].fr, DeltaOf(m, delta, es[i].g), after[i])
Unchanged(m, after) ==
  LET es == Elems(m, TRUE) IN
  /\ Len(after) = Len(es)
  /\ \A i \in 1..Len(es) : IF m.kinds[es[i].g] = "G"
                           THEN SameGroupElem(PlainG(m.ty, after[i]), PlainG(m.ty, m.vals[es[i].g]))
                           ELSE after[i] = m.vals[es[i].g]
\* first-order change (tensor layout) of a group element under  Exp(eps a) @ X : the dual part of the
\* product in the dual ring; a driver applies delta = 2^-k a and reports (X_new - X) 2^k
FirstOrder(ty, x, a) ==
  LET Zd == R!Mul(R!ExpNearTrans(DecA(ty, TLCEval([j \in 1..ADim(ty) |-> <<DZero, a[j]>>]))), DecG(ty, Lift(x)))
      t == <<Du(Zd.t[1]), Du(Zd.t[2]), Du(Zd.t[3])>>
      q == <<Du(Zd.q[1]), Du(Zd.q[2]), Du(Zd.q[3]), Du(Zd.q[4])>> IN
  CASE ty = "SO3" -> q [] ty = "SE3" -> t \o q [] ty = "RxSO3" -> q \o <<Du(Zd.s)>> [] ty = "Sim3" -> t \o q \o <<Du(Zd.s)>>
FirstOrderElem(m, g, fr, a, chg) ==
  IF fr THEN chg = VZero(Len(m.vals[g]))
  ELSE IF m.kinds[g] = "G" THEN chg = FirstOrder(m.ty, m.vals[g], a)
  ELSE chg = a
FirstOrderOK(m, a, chg) ==
  LET es == Elems(m, TRUE) IN
  /\ Len(chg) = Len(es)
  /\ \A i \in 1..Len(es) : FirstOrderElem(m, es[i].g, es[i].fr, DeltaOf(m, a, es[i].g), chg[i])
DeltaExact(m, delta) ==      \* every group element's slice is rotation-free (precondition of Retract)
  LET c == Columns(m) IN \A i \in 1..Len(c) : m.kinds[c[i]] = "G" => RotationFree(m.ty, DeltaOf(m, delta, c[i]))
================================================================================
