SPECIFICATION Spec
PROPERTY ForwardByOneOnTrace
CHECK_DEADLOCK FALSE
