\* implementation-shaped state only (history folded away): two data points, every optional-argument pattern of
\* NLS.set_refpoint, two polynomial programs; call sequences of length <= 6
SPECIFICATION Spec
CONSTANTS
  Classes = {"LTI", "LTV", "NLS"}
  TimeVals = {0, 3}
  MaxLen = 6
  KeepHist = FALSE
  Rich = TRUE
  ProgIds = {1, 2}
  AliasRefTime = FALSE
CONSTRAINT Bound
INVARIANT TypeOK
INVARIANT OutputsAtPreIncrement
INVARIANT RefIsArgsOrRecent
INVARIANT LinAtRef

INVARIANT GrammarClosed
PROPERTY ForwardByOne
PROPERTY SettersSet
PROPERTY OthersKeepTime
PROPERTY RefOnlyBySetRefpoint
CHECK_DEADLOCK FALSE
