\* liveness of the driver loops: no state constraint, only loop actions bounded by the budget
SPECIFICATION Spec
CONSTANTS
  MaxStepsSet = {1,2,3}
  PatienceSet = {1,2}
  MaxLen = 4
  MaxResets = 1
  KeepHist = FALSE
  WithSnap = FALSE
CONSTRAINT Bound
PROPERTY LoopTerminates
CHECK_DEADLOCK FALSE
