\* thorough: LM x three strategies x reject 0..6 x 5 calls x three hyper-parameter sets, GN x 5 calls
SPECIFICATION Spec
CONSTANTS
  Algos = {"LM", "GN"}
  Strategies = {"Constant", "Adaptive", "TrustRegion"}
  RejectSet = {0, 1, 2, 3, 4, 5, 6}
  HyperSet <- HyperThorough
  MaxCalls = 5
  Variant = "code"
INVARIANT TypeOK
INVARIANT ReturnedLossIsTrueLoss
INVARIANT CacheCoherent
INVARIANT NotWorseUnlessExhausted
INVARIANT LastIsGivenLoss
INVARIANT TrialsStartFromGiven
INVARIANT SolverRaiseRestores
INVARIANT TrialsBounded
INVARIANT FirstIterationAlways
INVARIANT RejectCountIsRejections
INVARIANT DampingWithinBounds
INVARIANT GNReturnsNewRecordsPrevious
PROPERTY RejectedTrialRestores
PROPERTY DampingMoves
CHECK_DEADLOCK FALSE
