----------------------------- MODULE SysTimeTrace -----------------------------
(* Validates executions recorded from real pypose LTI / LTV / NLS objects against the      *)
(* transition function of SysTime, plus the stateless helper events (bmv, bvv, bvmv on      *)
(* integer data; Mode-R measurements of trigonometric programs).                            *)
(*                                                                                          *)
(* A trace is [cfg |-> [cls, sys, rank], ev |-> <<event, ...>>].  Events:                    *)
(*   act = "call":  one public call [op, x, u, v] (options; x, u batches of integer vectors) *)
(*                  with what was observed after it: t (systime), out (option: xn, y,        *)
(*                  orank), lin (option: A, B, C, D, c1, c2 read from the object).           *)
(*                  TLC computes the expected time, outputs (matrices of the pre-increment   *)
(*                  index) and, for NLS, the linearisation by symbolic differentiation.      *)
(*   act = "bmv" / "bvv" / "bvmv":  integer operands with (padded rank-2) batch shapes and   *)
(*                  the flattened result; TLC computes the broadcast product.                *)
(*   act = "trig":  integer error measures of a trigonometric NLS against mpmath.            *)
(* Verdicts are total: every event is consumed, the first failing clause is named, the       *)
(* state is resynchronised to the logged time.                                               *)
EXTENDS Naturals, Integers, Sequences, FiniteSets, TLC, Json, IOUtils

Traces == JsonDeserialize(IOEnv.TRACE_FILE)

S == INSTANCE SysTime WITH
       Classes <- {}, TimeVals <- {}, MaxLen <- 0, KeepHist <- FALSE, Rich <- FALSE, ProgIds <- {},
       AliasRefTime <- FALSE,
       cls <- "", sys <- <<>>, t <- 0, last <- <<>>, ref <- <<>>, out <- <<>>, hist <- <<>>, n <- 0, lastAct <- <<>>

VARIABLES tid, l, st, verdict

\* tolerances of the Mode-R clause (integers; measured on the unchanged tree: jac <= 4, repro <= 3)
JacTolUlps   == 64      \* autograd Jacobian entry vs exact derivative, in ulps of max(1, |J|max)
ReproTolUlps == 64      \* |A x + B u + c1 - f(x,u,t)| at the reference point, in ulps of the term scale
FirstOrderTol == 65536  \* first-order coefficient of the affine-model error, units of 2^-30 (tolerance ~ 6e-5; measured <= 2);
                        \* estimated from the errors at radii r, 2r (r = 2^-12) by the identity of SysTime!SecondOrder,
                        \* exact up to 2|c4| r^3 <= 1e-5 for every tree of the harness grammar

Max2(a, b) == IF a > b THEN a ELSE b

\* ---------------------------------------------------------------- calls on a system object
CallOf(e) == [op |-> e.op, x |-> e.x, u |-> e.u, v |-> e.v]

CallClause(cfg, s, e) ==
  LET c == CallOf(e) IN
  IF ~S!Judged(cfg.cls, cfg.sys, s, c) THEN "unjudged_call"
  ELSE
  LET r == S!StepSys(cfg.cls, cfg.sys, s, c) IN
  CASE e.t # r.s.t -> "systime"
    [] e.op = "Forward" /\ Len(e.out) # 1 -> "no_output"
    [] e.op = "Forward" /\ e.out[1].xn # r.out[1].xn -> "state_out"
    [] e.op = "Forward" /\ e.out[1].y # r.out[1].y -> "obs_out"
    [] e.op = "Forward" /\ cfg.cls # "NLS" /\ e.out[1].orank # Max2(cfg.rank, Max2(e.xrank, e.urank)) -> "out_rank"
    [] cfg.cls = "NLS" /\ Len(e.lin) = 1 /\ Len(r.s.ref) = 0 -> "lin_without_refpoint"
    [] cfg.cls = "NLS" /\ Len(e.lin) = 1 ->
         LET m == S!ReadLin(cfg.sys, r.s)  g == e.lin[1] IN
         CASE g.A # m.A -> "A"
           [] g.B # m.B -> "B"
           [] g.C # m.C -> "C"
           [] g.D # m.D -> "D"
           [] g.c1 # m.c1 -> "c1"
           [] g.c2 # m.c2 -> "c2"
           [] OTHER -> "ok"
    [] OTHER -> "ok"

NextSt(cfg, s, e) ==
  IF e.act # "call" \/ ~S!Judged(cfg.cls, cfg.sys, s, CallOf(e)) THEN s
  ELSE LET r == S!StepSys(cfg.cls, cfg.sys, s, CallOf(e)) IN [r.s EXCEPT !.t = e.t]

\* ---------------------------------------------------------------- bmv / bvv / bvmv
\* operands are flattened over their batch shape <<a1, a2>> (rank padded to 2 with leading ones)
Compat(a, b) == \A i \in 1..2 : a[i] = b[i] \/ a[i] = 1 \/ b[i] = 1
BShape(a, b) == <<Max2(a[1], b[1]), Max2(a[2], b[2])>>
Idx(sh, i, j) == ((IF sh[1] = 1 THEN 1 ELSE i) - 1) * sh[2] + (IF sh[2] = 1 THEN 1 ELSE j)
Outer(a, b)   == [i \in 1..Len(a) |-> [j \in 1..Len(b) |-> a[i] * b[j]]]

BmvClause(e) ==
  LET os == BShape(e.ms, e.vs) IN
  CASE ~Compat(e.ms, e.vs) -> "unjudged_shapes"
    [] e.os # os -> "batch_shape"
    [] e.orank # Max2(e.mrank, e.vrank) -> "rank"
    [] Len(e.out) # os[1] * os[2] -> "numel"
    [] \E i \in 1..os[1], j \in 1..os[2] :
         e.out[Idx(os, i, j)] # S!MV(e.mat[Idx(e.ms, i, j)], e.vec[Idx(e.vs, i, j)]) -> "value"
    [] OTHER -> "ok"

BvvClause(e) ==
  LET os == BShape(e.ls, e.rs) IN
  CASE ~Compat(e.ls, e.rs) -> "unjudged_shapes"
    [] e.os # os -> "batch_shape"
    [] e.orank # Max2(e.lrank, e.rrank) -> "rank"
    [] Len(e.out) # os[1] * os[2] -> "numel"
    [] \E i \in 1..os[1], j \in 1..os[2] :
         e.out[Idx(os, i, j)] # Outer(e.lvec[Idx(e.ls, i, j)], e.rvec[Idx(e.rs, i, j)]) -> "value"
    [] OTHER -> "ok"

BvmvClause(e) ==
  LET o1 == BShape(e.ls, e.ms)  os == BShape(o1, e.rs) IN
  CASE ~(Compat(e.ls, e.ms) /\ Compat(o1, e.rs)) -> "unjudged_shapes"
    [] e.os # os -> "batch_shape"
    [] e.orank # Max2(1, Max2(e.lrank, Max2(e.mrank, e.rrank))) -> "rank"     \* atleast_1d
    [] Len(e.out) # os[1] * os[2] -> "numel"
    [] \E i \in 1..os[1], j \in 1..os[2] :
         e.out[Idx(os, i, j)] # S!Dot(e.lvec[Idx(e.ls, i, j)], S!MV(e.mat[Idx(e.ms, i, j)], e.rvec[Idx(e.rs, i, j)]))
           -> "value"
    [] OTHER -> "ok"

\* ---------------------------------------------------------------- Mode R: trigonometric programs
TrigClause(e) ==
  CASE e.jac > JacTolUlps -> "jacobian_ulps"
    [] e.repro > ReproTolUlps -> "reproduce_ulps"
    [] e.lin1 > FirstOrderTol -> "not_second_order"
    [] OTHER -> "ok"

\* ----------------------------------------------------------------
Clause(cfg, s, e, first) ==
  IF first /\ cfg.cls = "NLS" /\ ~S!InGrammar(cfg.sys) THEN "program_outside_grammar"
  ELSE CASE e.act = "call" -> CallClause(cfg, s, e)
         [] e.act = "bmv"  -> BmvClause(e)
         [] e.act = "bvv"  -> BvvClause(e)
         [] e.act = "bvmv" -> BvmvClause(e)
         [] e.act = "trig" -> TrigClause(e)
         [] e.act = "raise" -> "raised"
         [] OTHER -> "unknown_event"

Init == tid \in 1..Len(Traces) /\ l = 1 /\ st = S!InitSt /\ verdict = "ok"

Next ==
  LET T == Traces[tid] IN
  /\ l <= Len(T.ev)
  /\ LET e  == T.ev[l]
         cl == Clause(T.cfg, st, e, l = 1) IN
       /\ verdict' = IF verdict = "ok" /\ cl # "ok" THEN cl \o "@" \o ToString(l) ELSE verdict
       /\ st' = NextSt(T.cfg, st, e)
       /\ (l = Len(T.ev)) => PrintT(<<"VERDICT", tid, verdict'>>)
  /\ l' = l + 1 /\ UNCHANGED tid

Spec == Init /\ [][Next]_<<tid, l, st, verdict>>

\* design property re-evaluated along every recorded execution: a call of the system adds exactly one
ForwardByOneOnTrace ==
  [][(Traces[tid].ev[l].act = "call" /\ Traces[tid].ev[l].op = "Forward" /\ verdict' = "ok") => st'.t = st.t + 1]_<<tid, l, st, verdict>>
================================================================================
