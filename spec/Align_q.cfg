\* quick, exact correspondences.  3-point clouds (with repeats) over 10 points of {0,1,2}x{0,1}x{0,1}; 4-point clouds
\* (with repeats) over 7 points containing two collinear triples; 5/6-point sets over the unit-cube corners (+ (2,0,0)):
\* 553 clouds of all five classes x 12 rotations x translation (1,-2,3) x scales 1/2, 1  = 13 272 instances
SPECIFICATION Spec
CONSTANTS
  P3 = {0, 1, 10, 11, 100, 101, 110, 111, 200, 211}
  P4 = {0, 100, 200, 10, 1, 111, 222}
  P5 = {0, 1, 10, 11, 100, 101, 110, 111}
  P6 = {0, 1, 10, 11, 100, 101, 110, 111, 200}
  MultiSizes = {3, 4}
  UnitKinds = {"axis", "half"}
  TransCodes = {638}
  ScaleHalves = {1, 2}
  NoiseKinds = {"none"}
INVARIANT TypeOK
INVARIANT TrueRigidReproduced
INVARIANT TrueSimReproduced
INVARIANT UniqueRigidMinimiser
INVARIANT UniqueSimMinimiser
INVARIANT CollinearTies
INVARIANT RigidFormulaIsDefinition
INVARIANT SimFormulaIsDefinition
INVARIANT SSRNonNegative
INVARIANT SimNotWorseThanRigid
INVARIANT BestBoundedByNoise
INVARIANT WholeNegationIsPessimal
INVARIANT ProperWithinOrthogonal
CHECK_DEADLOCK FALSE
