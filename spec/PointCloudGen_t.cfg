\* every cloud of 1..4 points on the 3x3 grid, every ordering (3609)
SPECIFICATION Spec
CONSTANTS
  GGrid = {0, 1, 2}
  GPD = 2
  GMaxN = 4
  GOrds = {1, 2, 0}
  GRadii = {1, 2, 3, 4}
  GVox = {1, 2, 3}
