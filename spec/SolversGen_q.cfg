\* quick: symmetric orders 1..3 entries -2..2; least squares: every shape m,n <= 3 with entries
\* -1..1 except 3x3, which is enumerated with entries 0..1; CG tol = 2^-15
SPECIFICATION Spec
CONSTANTS
  GDims = {1, 2, 3}
  GEMax = 2
  GLDims = {11, 12, 13, 21, 22, 23, 31, 32, 133}
  GTolD = 32768
