\* nesting depth <= 3, 4 steps per body (faults at points 0..4), the code as written
SPECIFICATION Spec
CONSTANTS
  MaxDepth = 3
  Points = 4
  HasFinally = TRUE
INVARIANT RestoredWhenQuiescent
INVARIANT FrameRestores
INVARIANT WrappedInside
INVARIANT NoWrapperChains
INVARIANT DepthBound
INVARIANT TypeOK
CHECK_DEADLOCK FALSE
