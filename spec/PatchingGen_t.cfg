SPECIFICATION Spec
CONSTANTS
  GDepth = 2
  GPoints = 3
  GLen = 26
